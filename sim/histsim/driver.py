"""histsim driver: seeded process histories, goldens, oracles G-TEXT (C12), N-STABLE /
N-IDENT / N-SEP (C13), minimisation and replay.

One integer (run seed) -> one history: hash seed + op list.  The history is executed by
sim/histsim/child.py in a fresh ``setarch -R`` interpreter.
"""

from __future__ import annotations

import difflib
import json
import os
import re
import subprocess
import sys
import time
from collections import Counter, defaultdict

from sim import core
from sim import requests as R

CHILD = os.path.join(os.path.dirname(os.path.abspath(__file__)), "child.py")
PY = sys.executable
IDENT = re.compile(r"^[A-Za-z_][A-Za-z0-9_]*$")

UNRELATED = ["mesh", "mesh3", "space", "coefficient", "constant", "argument", "element",
             "quadelement", "index"]


# --------------------------------------------------------------------------------------
# running one history


class Zygote:
    """A pre-imported interpreter for one hash seed; forks one fresh process per history."""

    def __init__(self, hashseed):
        self.hashseed = hashseed
        env = core.child_env({"PYTHONHASHSEED": str(hashseed)})
        self.p = subprocess.Popen(["setarch", "-R", PY, CHILD, "--zygote"], stdin=subprocess.PIPE,
                                  stdout=subprocess.PIPE, stderr=subprocess.PIPE, env=env,
                                  start_new_session=True)
        self.fd = self.p.stdout.fileno()
        self.buf = b""

    def _read(self, n_or_line, deadline):
        import select

        while True:
            if n_or_line is None:
                i = self.buf.find(b"\n")
                if i >= 0:
                    line, self.buf = self.buf[:i], self.buf[i + 1:]
                    return line
            elif len(self.buf) >= n_or_line:
                out, self.buf = self.buf[:n_or_line], self.buf[n_or_line:]
                return out
            left = deadline - time.time()
            if left <= 0:
                raise core.HarnessError("histsim history wall cap exceeded")
            r, _, _ = select.select([self.fd], [], [], min(left, 5.0))
            if r:
                chunk = os.read(self.fd, 1 << 20)
                if not chunk:
                    err = self.p.stderr.read().decode(errors="replace")[-2000:]
                    raise core.HarnessError("histsim zygote died: " + err)
                self.buf += chunk

    def run(self, ops, want_text=True, timeout=600):
        scn = {"ops": ops, "want_text": want_text, "scratch": core.scratch_root()}
        self.p.stdin.write(json.dumps(scn).encode() + b"\n")
        self.p.stdin.flush()
        deadline = time.time() + timeout
        try:
            n = int(self._read(None, deadline))
            return json.loads(self._read(n, deadline))
        except core.HarnessError:
            self.close(kill=True)
            raise

    def close(self, kill=False):
        try:
            if kill:
                os.killpg(self.p.pid, 9)
            else:
                self.p.stdin.close()
                self.p.wait(timeout=30)
        except Exception:
            try:
                os.killpg(self.p.pid, 9)
            except Exception:
                pass
        for f in (self.p.stdout, self.p.stderr, self.p.stdin):
            try:
                f.close()
            except Exception:
                pass


_Z = {}


def run_child(hashseed, ops, want_text=True, timeout=600):
    """Run one history in a fresh process forked from this worker's zygote for ``hashseed``."""
    z = _Z.get(hashseed)
    if z is None or z.p.poll() is not None:
        if len(_Z) >= 3:  # keep few interpreters alive per worker
            for k in list(_Z):
                _Z.pop(k).close()
        z = _Z[hashseed] = Zygote(hashseed)
    return z.run(ops, want_text, timeout)


def close_zygotes():
    for k in list(_Z):
        _Z.pop(k).close()


# --------------------------------------------------------------------------------------
# request pool for histories


def text_requests(thorough):
    out = []
    for r in R.POOL.values():
        if "jitonly" in r.tags or "bad" in r.tags:
            continue
        if not thorough and r.name in ("dg_jump_hex", "hyperelastic_tet"):
            continue
        out.append(r.name)
    return out


def jit_requests(thorough):
    out = []
    for r in R.POOL.values():
        if "bad" in r.tags:
            continue
        if not thorough and r.name in ("dg_jump_hex", "hyperelastic_tet"):
            continue
        out.append(r.name)
    return out


def history_pool(names):
    """Requests that may appear inside a history ('goldonly' ones need a process of their own)."""
    return [n for n in names if "goldonly" not in R.get(n).tags]


BAD = [r.name for r in R.POOL.values() if "bad" in r.tags]


def families(pool):
    """Groups of related requests (option / scalar-type / flag variants of one base, expressions of
    one shape, point perturbations, creation-order twins): state leaking between *similar*
    compilations is the likeliest leak, so some histories draw all their requests from one group."""
    fam = defaultdict(list)
    for n in pool:
        r = R.get(n)
        fam[n.split("@")[0]].append(n)
        for t in ("exprfam", "points", "twin", "npstr"):
            if t in r.tags:
                fam["tag:" + t].append(n)
    return [sorted(v) for k, v in sorted(fam.items()) if len(v) >= 2]




def obs_key(o):
    return f"{o['kind']}|{o['D']}|{o.get('lang', '-')}"


TEXT_FIELDS = {
    "text": ("part0", "part1"),
    "cli": None,  # every file_* field
    "jit": ("cdef", "source"),
}


def text_fields(o):
    if o["kind"] == "cli":
        return sorted(k for k in o if k.startswith("file_") and not k.endswith(("_sha", "_len")))
    return [f for f in TEXT_FIELDS[o["kind"]] if f in o]


# --------------------------------------------------------------------------------------
# goldens


def golden_ops(dname, kinds):
    r = R.get(dname)
    ops = [["cfgfile", r.cfg_options]] if r.cfg_options else []
    ops.append(["build", "s0", dname, []])
    if "text" in kinds and "jitonly" not in r.tags:
        ops.append(["compile", "s0", None])
        ops.append(["compile", "s0", "numba"])
    if "cli" in kinds and "jitonly" not in r.tags and not r.jit_kwargs and "nocli" not in r.tags:
        ops.append(["cli", dname, None])
    if "jit" in kinds:
        ops.append(["jitname", "s0"])
    return ops


def _golden_job(a):
    dnames, kinds = a
    try:
        return [(d, run_child(0, golden_ops(d, kinds), want_text=True)) for d in dnames]
    finally:
        close_zygotes()


def build_goldens(dnames, kinds):
    """-> {obs_key: observation}; raises HarnessError when a golden cannot be produced."""
    out = {}
    dnames = list(dnames)
    w = min(core.n_workers(), max(1, len(dnames)))
    chunks = [dnames[i::w] for i in range(w)]
    for part in core.pmap(_golden_job, [(c, kinds) for c in chunks if c], wall_cap=900):
        for dname, res in part:
            if res.get("crash"):
                raise core.HarnessError(f"golden for {dname} failed: {res['crash'][-800:]}")
            for o in res["obs"]:
                out[obs_key(o)] = o
    return out


# --------------------------------------------------------------------------------------
# history generation (everything from one PRNG, fixed order)


GROUP = 8  # histories per hash seed (one pre-imported interpreter serves a group)


def group_hashseed(base, i):
    rng = core.rng_for(core.run_seed(base, (i // GROUP) * GROUP), "hashseed")
    return rng.choice([rng.randrange(1, 50), rng.randrange(0, 2**32 - 1), rng.randrange(1, 10), 0])


def gen_chain(seed, mode, hashseed, rng, pool):
    """A long chain: ~32 different requests, each built and observed once, in a seeded order.  One
    compilation per request, n(n-1)/2 ordered (earlier compile, later observation) pairs per
    history: this is what covers the *pairwise* interactions between arbitrary requests (a memo
    inside the generator that one request primes and another reads)."""
    names = rng.sample(pool, min(len(pool), rng.choice([24, 32, 32, 40])))
    ops = []
    if rng.random() < 0.7:
        ops.append(["share_options", True])
    for i, d in enumerate(names):
        rq = R.get(d)
        ops.append(["build", f"s{i}", d, []])
        if mode == "jit" or "jitonly" in rq.tags:
            ops.append(["jitname", f"s{i}"])
        else:
            ops.append(["compile", f"s{i}", "numba" if rng.random() < 0.15 else None])
        if rng.random() < 0.5:
            ops.append(["drop", f"s{i}"])
    return {"hashseed": hashseed, "ops": ops, "seed": seed, "mode": mode, "chain": True}


def gen_history(seed, mode, thorough, hashseed):
    """mode: 'text' (C12) or 'jit' (C13)."""
    rng = core.rng_for(seed, "hist-" + mode)
    pool = history_pool(text_requests(thorough) if mode == "text" else jit_requests(thorough))
    if rng.random() < 0.25:
        return gen_chain(seed, mode, hashseed, rng, pool)
    nreq = rng.choice([3, 4, 6, 8, 10, 12])
    if rng.random() < 0.4:
        fam = rng.choice(families(pool))
        ds = [rng.choice(fam) for _ in range(nreq)]
    else:
        ds = [rng.choice(pool) for _ in range(nreq)]
    ops = []
    if rng.random() < 0.7:
        # the caller keeps one options mapping per option set and hands the same object to
        # every compilation of the history that uses these options
        ops.append(["share_options", True])
    if rng.random() < 0.25:
        # the caller's options mapping is equal to get_options()'s, with another insertion order
        ops.append(["permute_options", rng.randrange(1, 9)])
    # prefix: unrelated creations / churn / option calls.  Some counts are chosen so that UFL's
    # global counters cross 9 -> 10 or 99 -> 100 inside the request (names such as w_9 / w_10
    # compare differently as strings and as numbers)
    for _ in range(rng.choice([0, 0, 1, 2, 4])):
        c = rng.random()
        if c < 0.6:
            ops.append(["create", rng.choice(UNRELATED), rng.choice([1, 1, 2, 3, 7, 8, 9, 10, 98, 99])])
        elif c < 0.8:
            ops.append(["churn", rng.choice([10, 100, 1000]), rng.choice([16, 100, 4096])])
        elif c < 0.9:
            ops.append(["options", "verbosity", rng.choice([10, 20, 30, 40])])
        elif c < 0.95:
            ops.append(["nprint", rng.choice(["low", "low", "high", "legacy"])])
        else:
            ops.append(["options", rng.choice(["chdir", "get"])])
    if any("npstr" in R.get(d).tags for d in ds) and rng.random() < 0.5:
        ops.insert(rng.randrange(len(ops) + 1), ["nprint", rng.choice(["low", "low", "high", "legacy"])])
    threaded = rng.random() < 0.35
    pending = []  # (slot, dname)
    nslot = 0
    # the simulator's estimate of UFL's global counters (Coefficient, Constant, Mesh), used for
    # counter-boundary targeting: place a power-of-ten boundary *inside* a request's own objects
    cnt = {"coefficient": 0, "constant": 0, "mesh": 0}
    CRE = {"mesh": (0, 0, 1), "mesh3": (0, 0, 1), "space": (0, 0, 1), "coefficient": (1, 0, 1),
           "constant": (0, 1, 1), "argument": (0, 0, 1), "element": (0, 0, 0), "quadelement": (0, 0, 0), "index": (0, 0, 0)}

    def account(kind, n):
        a, b, c = CRE[kind]
        cnt["coefficient"] += a * n
        cnt["constant"] += b * n
        cnt["mesh"] += c * n

    def own(dname):
        src = "\n".join(R.get(dname).stmts)
        return {"coefficient": src.count("ufl.Coefficient("), "constant": src.count("ufl.Constant("),
                "mesh": src.count("ufl.Mesh(")}

    for op in ops:
        if op[0] == "create":
            account(op[1], op[2])
    for d in ds:
        req = R.get(d)
        slot = f"s{nslot}"
        nslot += 1
        o = own(d)
        if rng.random() < 0.3:
            kinds = [k for k in ("coefficient", "constant") if o[k] >= 2]
            if kinds:
                k = rng.choice(kinds)
                j = rng.randrange(0, o[k] - 1)
                for B in (10, 100, 1000):
                    fill = (B - 1 - j) - cnt[k]
                    if fill >= 0:
                        if fill:
                            ops.append(["create", k, fill])
                            account(k, fill)
                        break
        gaps = []
        for _ in range(rng.choice([0, 0, 1, 2, 3])):
            gaps.append([rng.randrange(0, len(req.stmts)), rng.choice(UNRELATED),
                         rng.choice([1, 1, 2, 5, 8, 9])])
        ops.append(["build", slot, d, gaps])
        for g in gaps:
            account(g[1], g[2])
        for k in cnt:
            cnt[k] += o[k]
        pending.append((slot, d))
        # observations on some pending slot (not necessarily the newest: interleaves requests)
        for _ in range(rng.choice([1, 2, 2, 3, 4])):
            if not pending:
                break
            s, dn = rng.choice(pending)
            rq = R.get(dn)
            # an earlier compilation of *other* objects with this request's options (shared
            # mapping), successful or rejected
            if rng.random() < (0.35 if rq.options else 0.08):
                if rng.random() < 0.5 or len(pending) < 2:
                    bs = f"s{nslot}"
                    nslot += 1
                    ops.append(["build", bs, rng.choice(BAD), []])
                    ops.append(["xcompile", bs, dn, None])
                    ops.append(["drop", bs])
                else:
                    s2, dn2 = rng.choice([x for x in pending if x[0] != s])
                    ops.append(["xcompile", s2, dn, rng.choice([None, None, "numba"])])
            c = rng.random()
            variants = [n for n in pool if n != dn and n.split("@")[0] == dn.split("@")[0]
                        and R.get(n).stmts == rq.stmts and not R.get(n).jit_kwargs
                        and "jitonly" not in R.get(n).tags]
            if variants and "jitonly" not in rq.tags and rng.random() < 0.2:
                # the same objects compiled with the options of a sibling request
                if mode == "jit" and rng.random() < 0.7:
                    ops.append(["jitname", s, None, rng.choice(variants)])
                else:
                    ops.append(["compile", s, rng.choice([None, None, "numba"]), rng.choice(variants)])
            if mode == "text":
                if "jitonly" in rq.tags:
                    ops.append(["jitname", s])
                elif c < 0.55:
                    ops.append(["compile", s, None])
                elif c < 0.75:
                    ops.append(["compile", s, "numba"])
                elif c < 0.85 and not rq.jit_kwargs and "nocli" not in rq.tags:
                    ops.append(["cli", dn, None])
                    for k, v in own(dn).items():
                        cnt[k] += v
                else:
                    ops.append(["jitname", s])
            else:
                if c < 0.75 or "jitonly" in rq.tags:
                    ops.append(["jitname", s])
                else:
                    ops.append(["compile", s, None])
            if mode == "text" and threaded and len(pending) >= 2 and rng.random() < 0.3:
                # two (sometimes three) compilations overlapping in threads of this process
                k = 3 if len(pending) >= 3 and rng.random() < 0.2 else 2
                js = [[x[0], rng.choice([None, None, None, "numba"])] for x in rng.sample(pending, k)
                      if "jitonly" not in R.get(x[1]).tags]
                if len(js) >= 2:
                    ops.append(["tcompile", js, rng.randrange(1, 2**31), rng.choice([2, 10, 30, 100, 300])])
            c = rng.random()
            if c < 0.12 and rq.kind == "forms":
                ns = f"s{nslot}"
                nslot += 1
                ops.append(["reform", s, ns])
                pending.append((ns, dn))
            elif c < 0.25:
                ops.append(["create", rng.choice(UNRELATED), rng.choice([1, 2, 4])])
                account(ops[-1][1], ops[-1][2])
            elif c < 0.30:
                ops.append(["gc"])
            elif c < 0.36:
                ops.append(["churn", rng.choice([10, 500]), rng.choice([24, 512])])
            elif c < 0.38:
                ops.append(["options", "scalar", rng.choice(["float32", "complex128"])])
            elif c < 0.40:
                # somebody else in the process asks for (or sets) another log level
                if rng.random() < 0.5:
                    ops.append(["options", "verbosity", rng.choice([10, 10, 20, 40])])
                else:
                    ops.append(["options", "loglevel", rng.choice(["ffcx", "root"]), rng.choice([10, 10, 20, 50])])
            elif c < 0.44:
                ops.append(["nprint", rng.choice(["low", "low", "high", "legacy", "default"])])
            elif c < 0.56 and len(pending) > 0:
                # the objects of one request die: addresses (id()) become reusable
                ds_, dn_ = pending.pop(rng.randrange(len(pending)))
                ops.append(["drop", ds_])
                if not pending:
                    break
    return {"hashseed": hashseed, "ops": ops, "seed": seed, "mode": mode}


# --------------------------------------------------------------------------------------
# site classification of a text mismatch


def _canon_io(text):
    out = []
    for line in text.splitlines():
        s = line.strip()
        if s.startswith("// Inputs:") or s.startswith("// Outputs:") or s.startswith("# Inputs:") \
                or s.startswith("# Outputs:"):
            head, _, rest = s.partition(":")
            toks = sorted(t.strip() for t in rest.split(",") if t.strip())
            line = line[: len(line) - len(line.lstrip())] + head + ": " + ", ".join(toks)
        out.append(line)
    return "\n".join(out)


def _canon_J(text):
    return re.sub(r"\bJ\d+_", "J#_", text)


def _canon_FE(text):
    return "\n".join(sorted(re.sub(r"\bFE\d+_", "FE#_", text).splitlines()))


def _canon_sighash(text):
    text = re.sub(r"(integral|form|expression)_[0-9a-f]{40}", r"\1_#", text)
    return re.sub(r"""signature\s*=\s*(["'])[0-9a-f]{128}["']""", r"signature = \1#\1", text)


SITES = [
    ("signature-hash-in-names", _canon_sighash),
    ("section-io-comment-order", _canon_io),
    ("J-symbol-uses-ufl_id", _canon_J),
    ("FE-table-numbering", _canon_FE),
]


def _excerpt(a, b, n=10):
    d = list(difflib.unified_diff(a.splitlines(), b.splitlines(), lineterm="", n=0))
    return "\n".join(x[:160] for x in d[2 : 2 + n])


def classify(gold, got):
    """-> [(site, excerpt)]: the sites that explain the diff, 'other' for what none explains.
    A site is credited only if canonicalising it removes differing lines."""
    if gold == got:
        return []
    a, b = gold, got
    out = []
    progress = True
    while progress and a != b:  # to a fixpoint: one site can mask another on the same line
        progress = False
        for name, canon in SITES:
            if any(name == n for n, _ in out):
                continue
            ca, cb = canon(a), canon(b)
            if (ca == cb) or _ndiff(ca, cb) < _ndiff(a, b):
                out.append((name, _excerpt(a, b)))
                a, b = ca, cb
                progress = True
            if a == b:
                break
    if a != b:
        out.append(("other", _excerpt(a, b)))
    return out


def _ndiff(a, b):
    """Cheap difference measure: lines not matched as multisets, +1 if only the order differs."""
    if a == b:
        return 0
    ca, cb = Counter(a.splitlines()), Counter(b.splitlines())
    return sum(((ca - cb) + (cb - ca)).values()) * 2 + 1


# --------------------------------------------------------------------------------------
# oracles over one finished history


def check_history(scn, res, goldens, prop):
    """-> list of violations: dict(key, at, D, detail).  ``prop`` selects the oracle set."""
    v = []
    if res.get("crash"):
        v.append({"key": "H-CRASH", "at": None, "D": None,
                  "detail": "history crashed: " + res["crash"][-600:]})
        return v
    for o in res["obs"]:
        g = goldens.get(obs_key(o))
        if g is None:
            continue
        if prop == "C12":
            if o["kind"] == "jit" and o.get("module_name") != g.get("module_name"):
                continue  # name instability is C13's; the text embeds the name
            for f in text_fields(o):
                if o.get(f + "_sha") != g.get(f + "_sha"):
                    for site, excerpt in classify(g.get(f, ""), o.get(f, "")):
                        if o.get("counter_straddle"):
                            # UFL orders Constants / geometry of different meshes inside sums and
                            # products by repr(), i.e. by the string of their global counters: a
                            # distinct, separately listed cause (outside this repository)
                            site = "ufl-terminal-order"
                        if site == "signature-hash-in-names" and o.get("np_print_exposed") \
                                and "npstr" in R.get(o["D"]).tags:
                            # same cause as C13's N-STABLE/module/np-printoptions: the object
                            # names embed the UFL signature, which str()'s numpy arrays
                            site += "/np-printoptions"
                        v.append({"key": "G-TEXT/" + site, "at": o["at"], "D": o["D"],
                                  "field": f, "okey": obs_key(o), "detail": excerpt})
        else:
            if o["kind"] != "jit":
                continue
            if o.get("module_name") != g.get("module_name"):
                key = "N-STABLE/module"
                if o.get("counter_straddle"):
                    key = "N-STABLE/module/ufl-terminal-order"
                elif o.get("np_print_exposed") and "npstr" in R.get(o["D"]).tags:
                    # arrays inside the UFL/basix signature were str()'d under non-default numpy
                    # print options: a distinct, separately listed cause
                    key = "N-STABLE/module/np-printoptions"
                v.append({"key": key, "at": o["at"], "D": o["D"], "okey": obs_key(o),
                          "detail": f"{o.get('module_name')} != golden {g.get('module_name')}"})
            elif o.get("object_names") != g.get("object_names"):
                v.append({"key": "N-STABLE/object" + ("/ufl-terminal-order" if o.get("counter_straddle") else ""), "at": o["at"], "D": o["D"], "okey": obs_key(o),
                          "detail": f"{o.get('object_names')} != golden {g.get('object_names')}"})
            v += ident_violations(o)
    return v


def ident_violations(o):
    v = []
    names = list(o.get("object_names") or [])
    # every ufcx object defined in the module, not only the exported ones
    names += re.findall(r"^ufcx_\w+ (\w+) =", o.get("source", ""), re.M)
    names += re.findall(r"^void (tabulate_tensor_\w+)\(", o.get("source", ""), re.M)
    exported = list(o.get("object_names") or [])
    if len(set(exported)) != len(exported):
        v.append({"key": "N-IDENT/duplicate-export", "at": o["at"], "D": o["D"], "okey": obs_key(o),
                  "detail": str(Counter(exported).most_common(2))})
    defined = re.findall(r"^ufcx_\w+ (\w+) =", o.get("source", ""), re.M) + re.findall(
        r"^void (tabulate_tensor_\w+)\(", o.get("source", ""), re.M)
    dup = [n for n, c in Counter(defined).items() if c > 1]
    if dup:
        key = "N-IDENT/duplicate-definition"
        if "multidomain" in R.get(o["D"]).tags and all(n.startswith(("integral_", "tabulate_tensor_integral_"))
                                                       for n in dup):
            # integrals of one form over two different meshes: a separately listed cause
            key += "/integrals-over-two-meshes"
        v.append({"key": key, "at": o["at"], "D": o["D"],
                  "okey": obs_key(o), "detail": str(dup[:3])})
    bad = [n for n in names + [o.get("module_name") or ""] if not IDENT.match(n)]
    if bad:
        v.append({"key": "N-IDENT/not-an-identifier", "at": o["at"], "D": o["D"],
                  "okey": obs_key(o), "detail": str(bad[:3])})
    return v


def twin_violations(goldens, prop):
    """Twins are the same request built with another creation order of its own meshes: same
    signature, so (C13) same names and (C12) same text, already between two fresh processes."""
    v = []
    npairs = 0
    for k, o in sorted(goldens.items()):
        base = getattr(R.POOL.get(o["D"]), "twin_of", None)
        if not base:
            continue
        g = goldens.get(obs_key(dict(o, D=base)))
        if g is None:
            continue
        npairs += 1
        if prop == "C13" and o["kind"] == "jit":
            if o.get("module_name") != g.get("module_name") or o.get("object_names") != g.get("object_names"):
                v.append({"key": f"N-STABLE/twin/{base}", "at": None, "D": o["D"], "other": base,
                          "detail": f"{o['D']} and {base} are the same request with the meshes created in the "
                                    f"other order, but their names differ: {o.get('module_name')} vs "
                                    f"{g.get('module_name')}"})
        if prop == "C12" and o.get("module_name") == g.get("module_name"):
            for f in text_fields(o):
                if o.get(f + "_sha") != g.get(f + "_sha"):
                    v.append({"key": f"G-TEXT/twin/{base}", "at": None, "D": o["D"], "other": base,
                              "detail": f"{o['D']} vs {base} ({o['kind']} {f}): text differs with the creation "
                                        f"order of the request's meshes\n" + _excerpt(g.get(f, ""), o.get(f, ""))})
                    break
    return v, npairs


def sep_violations(goldens):
    """N-SEP over goldens (identical conditions, so a textual difference is due to the
    request): requests sharing a module name must have identical (cdef, source)."""
    by = defaultdict(list)
    for k, o in goldens.items():
        if o["kind"] == "jit":
            by[o["module_name"]].append(o)
    v = []
    pairs = 0
    n = sum(1 for o in goldens.values() if o["kind"] == "jit")
    pairs = n * (n - 1) // 2
    for name, obs in sorted(by.items()):
        for i in range(len(obs)):
            for j in range(i + 1, len(obs)):
                a, b = obs[i], obs[j]
                if (a["cdef_sha"], a["source_sha"]) != (b["cdef_sha"], b["source_sha"]) or \
                        a.get("compile_args") != b.get("compile_args") or \
                        (a.get("compile_env") or {}) != (b.get("compile_env") or {}):
                    d1, d2 = sorted([a["D"], b["D"]])
                    v.append({"key": f"N-SEP/{d1}~{d2}", "at": None, "D": d1, "other": d2,
                              "detail": f"requests {d1} and {d2} share module name {name} but "
                                        f"their generated sources / compile args differ"})
    return v, pairs


# --------------------------------------------------------------------------------------
# one run = generate + execute + check (worker side)


def _witness_terminal_order(mode):
    """The recorded history of the known finding '.../ufl-terminal-order' (a request whose own
    Constants get the counters 99, 100, 101), run in every check so that the finding is shown -
    or its disappearance noticed - independently of the seed."""
    ops = [["create", "constant", 98], ["build", "s0", "linear_cellwise_const_qdeg4_tri", []],
           ["build", "s1", "many_ties_tri", []], ["jitname", "s1"]]
    if mode == "text":
        ops.append(["compile", "s1", None])
    return {"hashseed": 0, "ops": ops, "seed": -101, "mode": mode, "witness": "ufl-terminal-order"}


WITNESS = {-101: _witness_terminal_order}  # negative seeds: fixed histories, not generated ones


def _run_job(a):
    seed, mode, thorough, prop, goldens_path, hashseed = a
    goldens = _load_goldens(goldens_path)
    scn = WITNESS[seed](mode) if seed in WITNESS else gen_history(seed, mode, thorough, hashseed)
    res = run_child(scn["hashseed"], scn["ops"], want_text=False)
    if res.get("crash") and res.get("rc") == 41 << 8:
        raise core.HarnessError(f"thread scheduler of history {seed} deadlocked (exit 41)")
    # cheap pass on digests only; fetch text again only for mismatching histories
    quick = check_history_digest(scn, res, goldens, prop)
    viol = []
    if quick:
        res_t = run_child(scn["hashseed"], scn["ops"], want_text=True)
        viol = check_history(scn, res_t, goldens, prop)
        if not viol and not res_t.get("crash"):
            viol = [{"key": "H-NONDET", "at": None, "D": None,
                     "detail": "digest mismatch not reproduced with text: " + str(quick[:1])}]
    logd = core.digest_of(_log_rows(res))
    stats = history_stats(scn, res)
    return {"seed": seed, "scn": scn, "viol": viol, "digest": logd, "stats": stats,
            "pairs": ordered_pairs(scn)}


def _run_group(jobs):
    try:
        return [_run_job(j) for j in jobs]
    finally:
        close_zygotes()


def _run_groups(jobs):
    """Jobs grouped by hash seed; each group runs inside one worker (one interpreter)."""
    groups = defaultdict(list)
    for idx, j in enumerate(jobs):
        groups[(j[-1], idx // (GROUP * 2))].append((idx, j))
    glist = list(groups.values())
    outs = core.pmap(_run_group, [[j for _, j in g] for g in glist], wall_cap=1800)
    res = [None] * len(jobs)
    for g, out in zip(glist, outs):
        for (idx, _), r in zip(g, out):
            res[idx] = r
    return res


def _log_rows(res):
    """Normalised event log (the determinism witness).  The heap-address stamp is part of it until
    the history first runs threads: thread start-up and tear-down allocate outside the
    simulator's control, so from then on only the counters, texts and names are compared."""
    rows = []
    threaded = False
    for e in res.get("log", []):
        threaded = threaded or e["op"][0] == "tcompile"
        stamp = e.get("stamp")
        if threaded and stamp:
            stamp = {k: v for k, v in stamp.items() if k != "objid"}
        rows.append([e["op"], stamp, _strip(e.get("o")), e.get("outcome"), e.get("switches"),
                     [_strip(x) for x in e.get("o_multi", [])] or None])
    return rows


def _strip(o):
    if not o:
        return None
    return {k: v for k, v in o.items() if k.endswith("_sha") or k in ("module_name", "object_names")}


_G = {}


def _load_goldens(path):
    if path not in _G:
        with open(path) as f:
            _G[path] = json.load(f)
    return _G[path]


def check_history_digest(scn, res, goldens, prop):
    if res.get("crash"):
        return ["crash"]
    bad = []
    for o in res["obs"]:
        g = goldens.get(obs_key(o))
        if g is None:
            continue
        if prop == "C12":
            if o["kind"] == "jit" and o.get("module_name") != g.get("module_name"):
                continue
            for k in o:
                if k.endswith("_sha") and o[k] != g.get(k):
                    bad.append((obs_key(o), k))
        elif o["kind"] == "jit":
            if o.get("module_name") != g.get("module_name") or o.get("object_names") != g.get(
                    "object_names"):
                bad.append((obs_key(o), "names"))
            # identifiers need the source text
            bad_ident = [n for n in (o.get("object_names") or []) if not IDENT.match(n)]
            if bad_ident or len(set(o.get("object_names") or [])) != len(o.get("object_names") or []):
                bad.append((obs_key(o), "ident"))
    return bad


def ordered_pairs(scn):
    """(D1, D2): request D2 was observed after request D1 had been compiled in the same process."""
    slot_req = {}
    compiled = []
    out = set()
    for op in scn["ops"]:
        if op[0] == "build":
            slot_req[op[1]] = op[2]
        elif op[0] == "reform":
            slot_req[op[2]] = slot_req.get(op[1])
        elif op[0] in ("compile", "jitname", "xcompile"):
            d = (op[3] if len(op) > 3 and op[0] != "xcompile" and op[3] else None) or slot_req.get(op[1])
            if d is None:
                continue
            if op[0] != "xcompile":
                out.update((c, d) for c in compiled if c != d)
            if d not in compiled:
                compiled.append(d)
        elif op[0] == "cli":
            out.update((c, op[1]) for c in compiled if c != op[1])
            if op[1] not in compiled:
                compiled.append(op[1])
        elif op[0] == "tcompile":
            ds = [slot_req.get(j[0]) for j in op[1]]
            for d in ds:
                out.update((c, d) for c in compiled + ds if c != d and c is not None)
            for d in ds:
                if d is not None and d not in compiled:
                    compiled.append(d)
    return sorted(out)


def history_stats(scn, res):
    st = Counter()
    ops = scn["ops"]
    st["ops"] = len(ops)
    st["observations"] = len(res.get("obs", []))
    meshes_before = 0
    nprint = False
    slot_req = {}
    compiled_before = set()
    seen_slots = Counter()
    for i, op in enumerate(ops):
        if op[0] == "create":
            if op[1] in ("mesh", "mesh3", "space", "coefficient", "constant", "argument"):
                meshes_before += op[2]
        elif op[0] == "nprint":
            nprint = op[1] != "default"
            st["probe_nprint_ops"] += 1
        elif op[0] == "options" and op[1] in ("verbosity", "loglevel"):
            st["probe_log_level_changes"] += 1
        elif op[0] == "build":
            slot_req[op[1]] = op[2]
            for g in op[3]:
                if g[1] in ("mesh", "mesh3", "space", "coefficient", "constant", "argument"):
                    meshes_before += g[2]
            if op[3]:
                st["probe_build_with_gaps"] += 1
        elif op[0] in ("compile", "jitname", "cli"):
            d = op[1] if op[0] == "cli" else None
            if meshes_before >= 5:
                st["probe_obs_after_5_unrelated_meshes"] += 1
            if op[0] != "cli":
                if nprint and "npstr" in R.get(slot_req.get(op[1], "mass_p1_interval")).tags:
                    st["probe_obs_array_signature_under_nprint"] += 1
                seen_slots[op[1]] += 1
                if seen_slots[op[1]] == 2:
                    st["probe_same_objects_compiled_twice"] += 1
            if compiled_before:
                st["probe_obs_after_other_compile"] += 1
            if op[0] in ("compile", "jitname") and len(op) > 3 and op[3]:
                st["probe_same_objects_compiled_with_sibling_options"] += 1
            if op[0] == "compile" and op[2] == "numba":
                st["probe_numba_text"] += 1
            if op[0] == "cli":
                st["probe_cli"] += 1
            compiled_before.add(op[1])
        elif op[0] == "tcompile":
            st["probe_compilations_overlapping_in_threads"] += 1
        elif op[0] == "xcompile":
            st["probe_earlier_compile_with_same_options_mapping"] += 1
            if slot_req.get(op[1]) in BAD:
                st["probe_earlier_compile_rejected"] += 1
        elif op[0] == "share_options":
            st["probe_histories_sharing_options_mapping"] += 1
        elif op[0] == "permute_options":
            st["probe_histories_with_permuted_options_mapping"] += 1
        elif op[0] == "reform":
            slot_req[op[2]] = slot_req.get(op[1], "mass_p1_interval")
            st["probe_reform"] += 1
    st["hashseed_nonzero"] = int(scn["hashseed"] != 0)
    if scn.get("chain"):
        st["probe_chain_histories"] += 1
    return dict(st)


# --------------------------------------------------------------------------------------
# minimisation + replay


def _fails_with(hashseed, ops, goldens, prop, key):
    res = run_child(hashseed, ops, want_text=True)
    return any(x["key"] == key for x in check_history(None, res, goldens, prop))


def _valid_ops(ops):
    """Keep op lists well-formed after deletion: observations need their slot built."""
    built = set()
    out = []
    for op in ops:
        if op[0] == "build":
            built.add(op[1])
        elif op[0] in ("compile", "jitname", "xcompile"):
            if op[1] not in built:
                continue
        elif op[0] == "tcompile":
            if any(j[0] not in built for j in op[1]):
                continue
        elif op[0] == "reform":
            if op[1] not in built:
                continue
            built.add(op[2])
        elif op[0] == "drop":
            if op[1] not in built:
                continue
            built.discard(op[1])
        out.append(op)
    return out


def minimise(scn, goldens, prop, key):
    hs, ops = scn["hashseed"], list(scn["ops"])

    def test(sub):
        sub = _valid_ops(sub)
        if not any(o[0] in ("compile", "jitname", "cli", "tcompile") for o in sub):
            return False
        return _fails_with(hs, sub, goldens, prop, key)

    ops = _valid_ops(core.ddmin(ops, test, max_tests=150))
    # drop gaps inside builds
    for i, op in enumerate(ops):
        if op[0] == "build" and op[3]:
            trial = [list(o) for o in ops]
            trial[i] = [op[0], op[1], op[2], []]
            if _fails_with(hs, trial, goldens, prop, key):
                ops = trial
    # shrink counts
    for i, op in enumerate(ops):
        if op[0] == "create" and op[2] > 1:
            trial = [list(o) for o in ops]
            trial[i] = [op[0], op[1], 1]
            if _fails_with(hs, trial, goldens, prop, key):
                ops = trial
    # simplest hash seed
    for cand in (0, 1, 2, 3, 4, 5):
        if cand == hs:
            break
        if _fails_with(cand, ops, goldens, prop, key):
            hs = cand
            break
    return {"hashseed": hs, "ops": ops, "seed": scn.get("seed"), "mode": scn.get("mode")}


def _minimise_job(a):
    key, r, x, nw, prop, gpath = a
    goldens = _load_goldens(gpath)
    try:
        if key in ("H-CRASH", "H-NONDET"):
            small = r["scn"]
        else:
            small = minimise(r["scn"], goldens, prop, key)
        close_zygotes()  # the final run is the first history of a fresh interpreter, as in a replay
        res = run_child(small["hashseed"], small["ops"], want_text=True)
        return small, res
    finally:
        close_zygotes()


def replay(path):
    """Re-run a replay file against the current tree in a fresh process (we are one)."""
    rp = core.load_replay(path)
    prop = rp["property"]
    if rp.get("kind") == "sep":
        goldens = build_goldens(rp["requests"], ("text", "cli", "jit"))
        v, _ = sep_violations(goldens)
        v = v + twin_violations(goldens, prop)[0]
        hit = [x for x in v if x["key"] == rp["invariant"]]
        print(f"replay {path}: invariant {rp['invariant']} " + ("REPRODUCED" if hit else "not reproduced"))
        if hit:
            print(f"VIOLATION property={prop} replay={path}")
        return 1 if hit else 0
    scn = rp["scenario"]
    dnames = sorted(({op[2] for op in scn["ops"] if op[0] == "build"} |
                     {op[1] for op in scn["ops"] if op[0] == "cli"} |
                     {op[3] for op in scn["ops"] if op[0] in ("compile", "jitname") and len(op) > 3 and op[3]})
                    - set(BAD))
    goldens = build_goldens(dnames, ("text", "cli", "jit"))
    res = run_child(scn["hashseed"], scn["ops"], want_text=True)
    viol = check_history(scn, res, goldens, prop)
    hit = [x for x in viol if x["key"] == rp["invariant"]]
    logd = core.digest_of(_log_rows(res))
    same = logd == rp.get("digest")
    print(f"replay {path}: invariant {rp['invariant']} " + ("REPRODUCED" if hit else "not reproduced")
          + f"; event-log digest {'identical' if same else 'differs'}")
    for x in hit[:1]:
        print(x["detail"])
    if hit:
        print(f"VIOLATION property={prop} replay={path}")
    return 1 if hit else 0


# --------------------------------------------------------------------------------------
# the checks


def _selftest_determinism(n, mode, thorough, prop, gpath, base):
    """n histories twice each; digests must agree."""
    jobs = [(core.run_seed(base, 900_000 + i), mode, thorough, prop, gpath,
             group_hashseed(base, 900_000 + i)) for i in range(n)]
    a = _run_groups(jobs)
    # second run: reversed order inside each interpreter, so a history meets another position
    b = _run_groups(jobs[::-1])[::-1]
    return sum(1 for x, y in zip(a, b) if x["digest"] != y["digest"]), n


def run_check(prop, tier, base, replay_path=None):
    if replay_path:
        return replay(replay_path)
    t0 = time.time()
    thorough = tier == "thorough"
    mode = "text" if prop == "C12" else "jit"
    verd = core.Verdicts(prop)
    if prop == "C12":
        n_hist = int(os.environ.get("VERIF_RUNS", 0)) or (4000 if thorough else 256)
        dnames = text_requests(thorough)
        kinds = ("text", "cli", "jit")
    else:
        n_hist = int(os.environ.get("VERIF_RUNS", 0)) or (3200 if thorough else 224)
        dnames = jit_requests(thorough)
        kinds = ("text", "jit")
    try:
        goldens = build_goldens(dnames, kinds)
    except core.HarnessError as e:
        verd.add_harness(str(e))
        return verd.finish()
    gpath = os.path.join(core.scratch_root(), f"goldens-{prop}.json")
    with open(gpath, "w") as f:
        json.dump(goldens, f)
    _G[gpath] = goldens
    t_gold = time.time() - t0

    jobs = [(core.run_seed(base, i), mode, thorough, prop, gpath, group_hashseed(base, i))
            for i in range(n_hist)]
    jobs += [(w, mode, thorough, prop, gpath, 0) for w in sorted(WITNESS)]
    try:
        results = _run_groups(jobs)
        nondet, ndet = _selftest_determinism(16 if not thorough else 64, mode, thorough, prop, gpath,
                                             base)
    except core.HarnessError as e:
        verd.add_harness(str(e))
        return verd.finish()
    if nondet:
        verd.add_harness(f"determinism self-test: {nondet}/{ndet} histories changed digest on re-run")

    # ---- collect violations by key, minimise one witness per key ---------------------
    bykey = defaultdict(list)
    for r in results:
        for x in r["viol"]:
            bykey[x["key"]].append((r, x))
    nviol = 0
    sep_pairs = 0
    sep_v = []
    twin_v, twin_pairs = twin_violations(goldens, prop)
    sep_v = sep_v + twin_v
    if prop == "C13":
        sv, sep_pairs = sep_violations(goldens)
        sep_v = sep_v + sv
        for g in goldens.values():
            if g["kind"] == "jit":
                for x in ident_violations(g):
                    bykey[x["key"]].append(({"seed": -1, "scn": {"hashseed": 0, "ops": golden_ops(
                        g["D"], ("jit",)), "seed": -1, "mode": "jit"}, "digest": None}, x))
    n = 0
    todo = []
    for key in sorted(bykey):
        witnesses = bykey[key]
        nviol += len(witnesses)
        if verd.is_known(key):
            verd.add(key, None, "")
            continue
        r, x = min(witnesses, key=lambda w: (len(w[0]["scn"]["ops"]), w[0]["seed"]))
        todo.append((key, r, x, len(witnesses), prop, gpath))
    try:
        mins = core.pmap(_minimise_job, todo, wall_cap=1800)
    except core.HarnessError as e:
        verd.add_harness(str(e))
        mins = []
    for (key, r, x, nw, _, _), (small, res) in zip(todo, mins):
        viol = check_history(small, res, goldens, prop)
        hit = [y for y in viol if y["key"] == key]
        logd = core.digest_of(_log_rows(res))
        payload = {
            "engine": "histsim", "property": prop, "invariant": key, "scenario": small,
            "original_seed": r["seed"], "original_ops": len(r["scn"]["ops"]),
            "witnesses_in_batch": nw, "digest": logd,
            "detail": (hit[0] if hit else x), "event_log": [[e["op"], e.get("stamp"), _strip(e.get("o"))]
                                                            for e in res.get("log", [])],
        }
        path = core.write_replay(prop, r["seed"], n, payload)
        n += 1
        if not hit:
            verd.add_harness(f"minimised scenario for {key} did not reproduce (replay {path})")
        elif key in ("H-CRASH", "H-NONDET"):
            verd.add(key, path, hit[0]["detail"][-600:])
        else:
            verd.add(key, path, f"D={x['D']} hashseed={small['hashseed']} ops={len(small['ops'])} "
                                f"(from {len(r['scn']['ops'])}); {nw} witnesses\n" + hit[0]["detail"])
    for x in sep_v:
        nviol += 1
        if verd.is_known(x["key"]):
            verd.add(x["key"], None, "")
            continue
        payload = {"engine": "histsim", "property": prop, "kind": "sep", "invariant": x["key"],
                   "requests": [x["D"], x["other"]], "detail": x}
        path = core.write_replay(prop, base, n, payload)
        n += 1
        verd.add(x["key"], path, x["detail"])

    # ---- evidence ----------------------------------------------------------------------
    core.dump_digests((r["seed"], r["digest"]) for r in results)
    wall = time.time() - t0
    stats = Counter()
    for r in results:
        stats.update(r["stats"])
    digests = {r["digest"] for r in results}
    nontrivial = set()
    hashseeds_per_req = defaultdict(set)
    for r in results:
        scn = r["scn"]
        prefix = []
        for op in scn["ops"]:
            if op[0] in ("compile", "jitname", "cli") and prefix:
                nontrivial.add((op[1], scn["hashseed"], core.digest_of(prefix)))
            if op[0] == "build":
                hashseeds_per_req[op[2]].add(scn["hashseed"])
            prefix.append(op)
    pairs = set()
    for r in results:
        pairs.update(tuple(x) for x in r.get("pairs", []))
    npool = len(history_pool(dnames))
    probes = {k: v for k, v in stats.items() if k.startswith("probe_")}
    probes["probe_min_distinct_hashseeds_per_request"] = min(
        (len(v) for v in hashseeds_per_req.values()), default=0)
    probes["probe_requests_seen"] = len(hashseeds_per_req)
    cov = {
        "evaluations": len(results),
        "distinct_nontrivial": len(nontrivial),
        "rule": "one evaluation = one seeded process history (fresh setarch -R interpreter, "
                "PYTHONHASHSEED from the scenario, 5-40 ops).  distinct_nontrivial counts distinct "
                "(observed slot, hash seed, digest of the op prefix before the observation) with a "
                "non-empty prefix, i.e. observation points that differ in their process history.",
        "samples": [results[i]["scn"] for i in range(min(3, len(results)))],
        "observation_points": stats["observations"],
        "ops_executed": stats["ops"],
        "distinct_run_digests": len(digests),
        "histories_per_hour": round(len(results) / max(wall - t_gold, 1e-6) * 3600),
        "seeds_per_hour": round(len(results) / max(wall - t_gold, 1e-6) * 3600),
        "observation_points_per_hour": round(stats["observations"] / max(wall - t_gold, 1e-6) * 3600),
        "goldens": len(goldens),
        "golden_wall_s": round(t_gold, 1),
        "requests": len(dnames),
        "ordered_request_pairs_covered": len(pairs),
        "ordered_request_pairs_possible": npool * (npool - 1),
        "fault_kinds_fired": {
            "hash_seed_nonzero": stats["hashseed_nonzero"],
            "unrelated_objects_before_observation": stats["probe_obs_after_5_unrelated_meshes"],
            "gaps_inside_build": stats["probe_build_with_gaps"],
            "prior_compilation_in_process": stats["probe_obs_after_other_compile"],
            "recompile_same_objects": stats["probe_same_objects_compiled_twice"],
            "numpy_printoptions_changed": stats["probe_nprint_ops"],
        },
        "probes": probes,
        "determinism_selftest": {"histories": ndet, "digest_mismatches": nondet},
        "violating_observations": nviol,
        "components": {
            "real": ["CPython interpreter per history", "ufl", "basix", "ffcx analysis/ir/codegeneration/"
                     "formatting", "ffcx.naming", "ffcx.codegeneration.jit up to ffibuilder.compile",
                     "ffcx.main.main (cli op)"],
            "stub": ["cffi.FFI.set_source/cdef/compile (recorded, then StopBuild)", "C compiler "
                     "(never reached)"],
        },
    }
    if prop == "C13":
        cov["sep_pairs_compared"] = sep_pairs
        cov["sep_shared_name_violations"] = len(sep_v)
    cov["twin_pairs_compared"] = twin_pairs
    core.write_evidence(
        prop, tier, base, "exploration", cov,
        ["sampled histories, not all histories", "goldens taken at PYTHONHASHSEED=0 with no prior op",
         "UFL/basix/numpy versions fixed by the sandbox",
         "N-SEP is evaluated over the pairs of pool requests only" if prop == "C13" else
         "text equality is byte equality of every generated file"],
        wall, len(verd.new))
    return verd.finish()
