"""histsim child: one simulated *process history*.

Started as ``setarch -R python child.py`` with PYTHONHASHSEED taken from the scenario, reads
the scenario (JSON) from stdin, executes its op list against the real ffcx/ufl/basix and
writes one JSON document to stdout.  Every op appends one entry to ``log`` (the determinism
witness) and every observation op appends one entry to ``obs``.

The child knows nothing about goldens or oracles.
"""

from __future__ import annotations

import gc
import hashlib
import io
import json
import logging
import os
import sys
import tempfile

VERIF = os.path.dirname(os.path.dirname(os.path.dirname(os.path.abspath(__file__))))
if VERIF not in sys.path:
    sys.path.insert(0, VERIF)
if os.environ.get("VERIF_REPO"):
    sys.path.insert(0, os.environ["VERIF_REPO"])


def sha(s):
    if isinstance(s, str):
        s = s.encode()
    return hashlib.sha256(s).hexdigest()[:24]


class StopBuild(Exception):
    pass


def read_line_unbuffered(fd=0):
    """Read one line from fd without reading ahead (other forks read the next lines)."""
    buf = bytearray()
    while True:
        b = os.read(fd, 1)
        if not b:
            return None if not buf else bytes(buf)
        if b == b"\n":
            return bytes(buf)
        buf += b


def write_all(fd, data):
    view = memoryview(data)
    while view:
        n = os.write(fd, view)
        view = view[n:]


def main():
    """``child.py``: one scenario on stdin, one history, result on stdout.
    ``child.py --zygote``: import everything once, then fork one child per scenario line; the
    zygote itself never executes an op, never parses input and never creates a UFL object, so
    every fork starts from the state of a freshly started interpreter after its imports."""
    zygote = "--zygote" in sys.argv

    import basix.ufl
    import cffi
    import numpy as np
    import ufl

    import ffcx
    import ffcx.codegeneration.jit as jit
    import ffcx.compiler
    import ffcx.main
    import ffcx.options
    from sim import requests as R

    import re
    import shutil

    if zygote:
        gc.collect()
        gc.freeze()
        while True:
            pid = os.fork()
            if pid == 0:
                line = read_line_unbuffered(0)
                if line is None:
                    os._exit(3)
                try:
                    scenario = json.loads(line)
                    out = json.dumps(run_scenario(scenario, locals_for_run())).encode()
                except BaseException:
                    import traceback

                    out = json.dumps({"crash": traceback.format_exc()[-3000:], "rc": 1, "log": [],
                                      "obs": []}).encode()
                write_all(1, str(len(out)).encode() + b"\n" + out)
                os._exit(0)
            _, status = os.waitpid(pid, 0)
            if os.WIFEXITED(status) and os.WEXITSTATUS(status) == 3:
                return
            if not (os.WIFEXITED(status) and os.WEXITSTATUS(status) == 0):
                out = json.dumps({"crash": f"history process died, wait status {status}", "rc": status,
                                  "log": [], "obs": []}).encode()
                write_all(1, str(len(out)).encode() + b"\n" + out)
    else:
        scenario = json.load(sys.stdin)
        json.dump(run_scenario(scenario, None), sys.stdout)


def locals_for_run():
    return None


_PREIMPORTED = []


def interleaved_compiles(jobs, seed, permille, options_for, share_list):
    """Run one compile_ufl_objects per job, each in its own thread, under a cooperative
    scheduler: a baton (one lock per thread) makes exactly one thread runnable; at every entry
    into a function defined in the ffcx package the running thread consults the PRNG and may hand
    the baton to another unfinished thread.  The schedule is a pure function of (seed, jobs)."""
    import random
    import threading

    import ffcx.compiler

    pkg = os.path.dirname(os.path.abspath(ffcx.__file__)) + os.sep
    if not _PREIMPORTED:
        # lazily imported back-end modules are imported before any thread runs
        import importlib
        import pkgutil

        for m in pkgutil.walk_packages(ffcx.__path__, "ffcx."):
            try:
                importlib.import_module(m.name)
            except Exception:
                pass
        _PREIMPORTED.append(True)
    rng = random.Random(seed)
    n = len(jobs)
    gates = [threading.Semaphore(0) for _ in range(n)]
    parked = [threading.Event() for _ in range(n)]
    all_done = threading.Event()
    finished = threading.Semaphore(0)
    done = [False] * n
    out = [None] * n
    state = {"cur": 0, "switches": 0}

    def pick_other(me):
        cands = [j for j in range(n) if j != me and not done[j]]
        return rng.choice(cands) if cands else None

    def make_prof(me):
        importing = [0]  # depth of imports in progress in this thread (it holds import locks)

        def prof(frame, event, arg):
            code = frame.f_code
            if code.co_name == "_find_and_load" and code.co_filename == "<frozen importlib._bootstrap>":
                if event == "call":
                    importing[0] += 1
                elif event == "return":
                    importing[0] -= 1
                return None
            # never while an import is in progress in this thread or while a module or class body
            # runs: the thread then holds an import lock another thread may need
            if event == "call" and importing[0] == 0 and code.co_filename.startswith(pkg) \
                    and code.co_flags & 0x1:
                if rng.randrange(1000) < permille:
                    nxt = pick_other(me)
                    if nxt is not None:
                        state["switches"] += 1
                        state["cur"] = nxt
                        gates[nxt].release()
                        if not gates[me].acquire(timeout=300):
                            os._exit(41)  # scheduler deadlock: the history process dies, the
                            # driver reports a harness error, never a violation
            return None
        return prof

    def worker(me):
        parked[me].set()
        if not gates[me].acquire(timeout=600):
            os._exit(41)
        (req, objs, ns), lang = jobs[me]
        sys.setprofile(make_prof(me))
        try:
            code, suffixes = ffcx.compiler.compile_ufl_objects(
                objs if share_list else list(objs), options_for(req, lang), namespace="ns")
            out[me] = (code, suffixes, None)
        except BaseException as e:  # reported by the caller
            import traceback

            out[me] = (None, None, traceback.format_exc()[-1500:])
        finally:
            sys.setprofile(None)
            done[me] = True
            nxt = pick_other(me)
            if nxt is not None:
                state["cur"] = nxt
                gates[nxt].release()
            finished.release()
            # threads leave together at the very end: the tear-down of one thread must not
            # overlap the run of the next (heap layout is part of the determinism witness)
            all_done.wait(600)

    threads = [threading.Thread(target=worker, args=(i,), name=f"tcompile-{i}") for i in range(n)]
    for i, t in enumerate(threads):
        t.start()
        if not parked[i].wait(600):  # one at a time: thread start-up code allocates too
            os._exit(41)
    gates[0].release()
    for _ in threads:
        if not finished.acquire(timeout=3000):
            os._exit(41)
    all_done.set()
    for t in threads:
        t.join()
    return {"out": out, "switches": state["switches"]}


def run_scenario(scenario, _unused):
    import re
    import shutil

    import basix.ufl
    import cffi
    import numpy as np
    import ufl

    import ffcx
    import ffcx.codegeneration.jit as jit
    import ffcx.compiler
    import ffcx.main
    import ffcx.options
    from sim import requests as R

    ops = scenario["ops"]
    want_text = scenario.get("want_text", True)
    scratch = tempfile.mkdtemp(prefix="hist-", dir=scenario.get("scratch"))
    cache_dir = os.path.join(scratch, "cache")

    # --- cffi stubs: observe what the JIT would hand to the C compiler -------------------
    seen = {}

    def set_source(self, module_name, source, **kw):
        seen["module_name"] = module_name
        seen["source"] = source
        seen["kw"] = {k: (list(v) if isinstance(v, (list, tuple)) else v) for k, v in kw.items()}

    def cdef(self, decl, **kw):
        seen["cdef"] = decl

    def compile_(self, tmpdir=".", verbose=0, target=None, debug=None):
        raise StopBuild()

    cffi.FFI.set_source = set_source
    cffi.FFI.cdef = cdef
    cffi.FFI.compile = compile_

    slots = {}  # slot -> (request, objs, ns)
    straddle = {}  # slot -> the request's own constants / meshes straddle a power of ten
    exposed = {}  # slot -> numpy print options were non-default when its arrays could be str()'d
    np_default = dict(np.get_printoptions())
    np_state = {"nondefault": False}
    keep = []  # keep unrelated objects alive so ids/counters are not recycled silently
    log = []
    obs = []

    def unrelated(kind, n):
        for _ in range(n):
            if kind == "mesh":
                keep.append(ufl.Mesh(basix.ufl.element("Lagrange", "triangle", 1, shape=(2,))))
            elif kind == "mesh3":
                keep.append(ufl.Mesh(basix.ufl.element("Lagrange", "tetrahedron", 1, shape=(3,))))
            elif kind == "space":
                m = ufl.Mesh(basix.ufl.element("Lagrange", "quadrilateral", 1, shape=(2,)))
                keep.append(ufl.FunctionSpace(m, basix.ufl.element("Lagrange", "quadrilateral", 2)))
            elif kind == "coefficient":
                m = ufl.Mesh(basix.ufl.element("Lagrange", "triangle", 1, shape=(2,)))
                V = ufl.FunctionSpace(m, basix.ufl.element("Lagrange", "triangle", 1))
                keep.append(ufl.Coefficient(V))
            elif kind == "constant":
                m = ufl.Mesh(basix.ufl.element("Lagrange", "interval", 1, shape=(1,)))
                keep.append(ufl.Constant(m, shape=(2,)))
            elif kind == "argument":
                m = ufl.Mesh(basix.ufl.element("Lagrange", "triangle", 1, shape=(2,)))
                V = ufl.FunctionSpace(m, basix.ufl.element("Lagrange", "triangle", 2))
                keep.append(ufl.TestFunction(V))
            elif kind == "element":
                keep.append(basix.ufl.element("N1curl", "tetrahedron", 2))
            elif kind == "quadelement":
                keep.append(basix.ufl.quadrature_element("triangle", degree=3))
            elif kind == "index":
                keep.append(ufl.Index())
            else:
                raise ValueError(kind)

    def counter_straddle(objs, kind):
        """True if the request's own Constants, or its own meshes, carry global counter values
        with different numbers of digits (9|10, 99|100): UFL orders such terminals inside sums
        and products by repr(), i.e. by the *string* of the counter."""
        import copy as _copy

        try:
            consts, meshes = [], []
            for o in objs:
                if kind == "forms":
                    consts += [c.count() for c in o.constants()]
                    meshes += [d.ufl_id() for d in o.ufl_domains()]
                else:
                    e = o[0]
                    consts += [c.count() for c in ufl.algorithms.analysis.extract_constants(e)]
                    meshes += [d.ufl_id() for d in ufl.domain.extract_domains(e)]
            return any(len({len(str(c)) for c in cs}) > 1 for cs in (consts, meshes))
        except Exception:
            return False

    def state_stamp():
        return {"mesh_id": ufl.Mesh._ufl_global_id, "objid": id(object())}

    shared = {"on": False, "maps": {}}

    def options_for(req, lang=None):
        """The options mapping handed to the compiler.  With ``share_options`` the caller keeps
        one mapping per distinct option set for the whole history and passes the same object
        to every compilation that uses these options (as ffcx.main does for several files)."""
        o = dict(req.options)
        if lang:
            o["language"] = lang
        if shared.get("permute"):
            # an equal options mapping whose entries were inserted in another order
            full = ffcx.options.get_options(o)
            items = list(full.items())
            k = shared["permute"] % max(1, len(items))
            full = dict(items[k:][::-1] + items[:k])
            if not shared["on"]:
                return full
            key = json.dumps(o, sort_keys=True, default=lambda x: f"{type(x).__module__}.{type(x).__name__}:{x!r}")
            return shared["maps"].setdefault(key, full)
        if not shared["on"]:
            return ffcx.options.get_options(o)
        # (type and repr: np.dtype("float32") and "float32" are different option values)
        key = json.dumps(o, sort_keys=True, default=lambda x: f"{type(x).__module__}.{type(x).__name__}:{x!r}")
        if key not in shared["maps"]:
            shared["maps"][key] = ffcx.options.get_options(o)
        return shared["maps"][key]

    def record(kind, dname, fields, texts):
        e = {"kind": kind, "D": dname, "at": len(log)}
        e.update(fields)
        for k, t in texts.items():
            e[k + "_sha"] = sha(t)
            e[k + "_len"] = len(t)
            if want_text:
                e[k] = t
        obs.append(e)
        return {k: v for k, v in e.items() if not (k in texts)}

    root = logging.getLogger()

    for op in ops:
        kind = op[0]
        entry = {"op": op}
        if kind == "create":
            unrelated(op[1], op[2])
        elif kind == "build":
            _, slot, dname, gaps = op
            req = R.get(dname)
            gapmap = {}
            for pos, gk, gn in gaps:
                gapmap.setdefault(pos, []).append((gk, gn))

            def between(i, ns, gapmap=gapmap):
                for gk, gn in gapmap.get(i, ()):
                    unrelated(gk, gn)

            objs, ns = req.build(between)
            slots[slot] = (req, objs, ns)
            exposed[slot] = np_state["nondefault"]
            straddle[slot] = counter_straddle(objs, req.kind)
        elif kind == "compile":
            slot, lang = op[1], op[2]
            req, objs, ns = slots[slot]
            if len(op) > 3 and op[3]:
                # the same objects compiled with the options of a variant of the same request
                # (same statements): the observation belongs to that variant
                req = R.get(op[3])
            exposed[slot] = exposed.get(slot, False) or np_state["nondefault"]
            code, suffixes = ffcx.compiler.compile_ufl_objects(
                objs if shared["on"] else list(objs), options_for(req, lang), namespace="ns"
            )
            entry["o"] = record(
                "text", req.name, {"lang": lang or "C", "suffixes": list(suffixes),
                                   "np_print_exposed": bool(exposed.get(slot)),
                 "counter_straddle": bool(straddle.get(slot)),
                                   "counter_straddle": bool(straddle.get(slot))},
                {f"part{i}": c for i, c in enumerate(code)},
            )
        elif kind == "share_options":
            shared["on"] = bool(op[1])
        elif kind == "permute_options":
            shared["permute"] = int(op[1])
        elif kind == "cfgfile":
            # options delivered through $PWD/ffcx_options.json (read once per process)
            d = tempfile.mkdtemp(prefix="cfg-", dir=scratch)
            with open(os.path.join(d, "ffcx_options.json"), "w") as f:
                json.dump(op[1], f)
            os.chdir(d)
        elif kind == "xcompile":
            # an *earlier* compilation of other objects with the options mapping of request
            # ``dopt`` - whatever its outcome (it may be rejected): only the outcome type is logged
            _, slot, dopt, lang = op
            req, objs, ns = slots[slot]
            exposed[slot] = exposed.get(slot, False) or np_state["nondefault"]
            try:
                ffcx.compiler.compile_ufl_objects(list(objs), options_for(R.get(dopt), lang),
                                                  namespace="ns")
                entry["outcome"] = "ok"
            except (KeyboardInterrupt, SystemExit, MemoryError):
                raise
            except BaseException as e:
                entry["outcome"] = type(e).__name__
        elif kind == "tcompile":
            # two compilations overlapping in two threads of this process, interleaved
            # deterministically: exactly one thread runs at any time, the baton can change hands
            # only when a function of the ffcx package is entered, and a PRNG seeded from the op
            # decides whether it does
            _, jobs, tseed, permille = op
            results = interleaved_compiles(
                [(slots[sl], lang) for sl, lang in jobs], tseed, permille, options_for, shared["on"])
            entry["switches"] = results["switches"]
            entry["o_multi"] = []
            for (sl, lang), (code, suffixes, err) in zip(jobs, results["out"]):
                exposed[sl] = exposed.get(sl, False) or np_state["nondefault"]
                if err is not None:
                    raise RuntimeError(f"tcompile thread failed: {err}")
                entry["o_multi"].append(record(
                    "text", slots[sl][0].name, {"lang": lang or "C", "suffixes": list(suffixes),
                                               "np_print_exposed": bool(exposed.get(sl)),
                                               "counter_straddle": bool(straddle.get(sl)),
                                               "threaded": True},
                    {f"part{i}": c for i, c in enumerate(code)}))
        elif kind == "jitname":
            slot = op[1]
            kw_override = op[2] if len(op) > 2 else None
            req, objs, ns = slots[slot]
            if len(op) > 3 and op[3]:
                req = R.get(op[3])  # sibling variant: same statements, other options
            exposed[slot] = exposed.get(slot, False) or np_state["nondefault"]
            seen.clear()
            fn = jit.compile_forms if req.kind == "forms" else jit.compile_expressions
            handlers_before = list(root.handlers)
            stdout_before = sys.stdout
            env_before = dict(os.environ)
            os.environ.update(getattr(req, "jit_env", None) or {})
            try:
                kw = dict(req.jit_kwargs)
                kw.update(kw_override or {})
                # a caller that keeps its objects also keeps its list of forms and passes the
                # same list object again
                fn(objs if shared["on"] else list(objs), options=dict(req.options),
                   cache_dir=cache_dir, **kw)
                raised = "returned"
            except StopBuild:
                raised = "StopBuild"
            compile_env = {k: os.environ.get(k) for k in ("CC", "CFLAGS", "CPPFLAGS", "LDFLAGS", "LDSHARED")
                           if os.environ.get(k) is not None}
            os.environ.clear()
            os.environ.update(env_before)
            # the stub's failure path leaves root handlers swapped on an unfixed tree; put
            # them back so that this artefact of the stub does not become history itself
            root.handlers = handlers_before
            sys.stdout = stdout_before
            names = re.findall(r"extern ufcx_(?:form|expression) (\w+);", seen.get("cdef", ""))
            entry["o"] = record(
                "jit", req.name,
                {"module_name": seen.get("module_name"), "object_names": names, "raised": raised,
                 "np_print_exposed": bool(exposed.get(slot)),
                 "counter_straddle": bool(straddle.get(slot)),
                 "compile_args": seen.get("kw", {}).get("extra_compile_args"),
                 "compile_env": compile_env},
                {"cdef": seen.get("cdef", ""), "source": seen.get("source", "")},
            )
        elif kind == "cli":
            _, dname, lang = op
            req = R.get(dname)
            d = tempfile.mkdtemp(prefix="cli-", dir=scratch)
            fn = os.path.join(d, "req.py")
            with open(fn, "w") as f:
                f.write(req.source())
                f.write("forms = objs\n" if req.kind == "forms" else "expressions = objs\n")
            import copy as _copy

            src = req.source()
            try:
                c0 = next(_copy.copy(ufl.Constant._counter)) if ufl.Constant._counter is not None else 0
            except Exception:
                c0 = 0
            m0 = ufl.Mesh._ufl_global_id
            cli_straddle = any(
                n >= 2 and len({len(str(x)) for x in range(a, a + n)}) > 1
                for a, n in ((c0, src.count("ufl.Constant(")), (m0, src.count("ufl.Mesh("))))
            argv = ["-d", "."]
            for k, v in sorted(req.options.items()):
                if isinstance(v, bool):
                    if v:
                        argv.append(f"--{k}")
                else:
                    argv += [f"--{k}", str(v)]
            if lang:
                argv += ["--language", lang]
            argv.append("req.py")
            cwd = os.getcwd()
            os.chdir(d)  # relative paths: the CLI prints its options into the file header
            try:
                ffcx.main.main(argv)
            finally:
                os.chdir(cwd)
            texts = {}
            for name in sorted(os.listdir(d)):
                if name.startswith("req") and name != "req.py":
                    texts["file_" + name.replace(".", "_")] = open(os.path.join(d, name)).read()
            entry["o"] = record("cli", req.name, {"lang": lang or "C",
                                                  "np_print_exposed": np_state["nondefault"],
                                                  "counter_straddle": bool(cli_straddle)}, texts)
        elif kind == "reform":
            # a Form rebuilt from the integrals of an already compiled one
            _, slot, newslot = op
            req, objs, ns = slots[slot]
            slots[newslot] = (req, [ufl.Form(f.integrals()) for f in objs], ns)
            exposed[newslot] = exposed.get(slot, False) or np_state["nondefault"]
            straddle[newslot] = straddle.get(slot, False)
        elif kind == "options":
            what = op[1]
            if what == "verbosity":
                ffcx.options.get_options({"verbosity": op[2]})
            elif what == "chdir":
                os.chdir(scratch)
            elif what == "get":
                ffcx.options.get_options()
            elif what == "scalar":
                ffcx.options.get_options({"scalar_type": op[2]})
            elif what == "loglevel":
                logging.getLogger("ffcx" if op[2] == "ffcx" else None).setLevel(op[3])
        elif kind == "nprint":
            # numpy's print options are process-global state that earlier code may have changed
            if op[1] == "low":
                np.set_printoptions(precision=3, threshold=5, edgeitems=1, suppress=True, linewidth=40)
            elif op[1] == "high":
                np.set_printoptions(precision=17, threshold=100000, floatmode="maxprec_equal")
            elif op[1] == "legacy":
                np.set_printoptions(legacy="1.13")
            else:
                np.set_printoptions(**np_default)
            np_state["nondefault"] = op[1] in ("low", "high", "legacy")
        elif kind == "churn":
            _, n, size = op
            keep.append([bytearray(size) for _ in range(n)])
            if len(keep) % 2:
                keep.pop(0 if not isinstance(keep[0], list) else -1)
        elif kind == "gc":
            gc.collect()
        elif kind == "drop":
            # the request's objects die; later objects may be allocated at their addresses
            req = objs = ns = None
            slots.pop(op[1], None)
            gc.collect()
        else:
            raise ValueError(f"unknown op {op}")
        entry["stamp"] = state_stamp()
        log.append(entry)

    shutil.rmtree(scratch, ignore_errors=True)
    return {"log": log, "obs": obs, "hashseed": os.environ.get("PYTHONHASHSEED")}


if __name__ == "__main__":
    main()
