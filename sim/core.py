"""Shared core: seeds, event-log digests, ddmin, replay files, evidence, known findings,
worker pools.  Nothing in here draws from a PRNG or reads a real clock on a path that
influences a simulated run; wall time is read only for evidence throughput numbers.
"""

from __future__ import annotations

import faulthandler
import hashlib
import json
import multiprocessing
import os
import random
import shutil
import sys
import tempfile
import time
from concurrent.futures import ProcessPoolExecutor, as_completed

VERIF = os.path.dirname(os.path.dirname(os.path.abspath(__file__)))
EVIDENCE_DIR = os.path.join(VERIF, "evidence")
REPLAY_DIR = os.path.join(VERIF, "replays")
KNOWN_FINDINGS = os.path.join(VERIF, "KNOWN_FINDINGS.txt")
BUILD_DIR = os.path.join(VERIF, "build")

EXIT_OK, EXIT_VIOLATION, EXIT_HARNESS = 0, 1, 2


class HarnessError(Exception):
    """The harness itself failed; never a violation, never success."""


# --------------------------------------------------------------------------------------
# tree under test


def repo_root():
    return os.environ.get("VERIF_REPO", "/repo")


def use_repo():
    """Put the tree under test first on sys.path (only matters for VERIF_REPO scratch copies;
    /repo itself is an editable install)."""
    r = os.environ.get("VERIF_REPO")
    if r and r not in sys.path:
        sys.path.insert(0, r)


def child_env(extra=None):
    env = dict(os.environ)
    r = os.environ.get("VERIF_REPO")
    pp = [VERIF]
    if r:
        pp.insert(0, r)
    if env.get("PYTHONPATH"):
        pp.append(env["PYTHONPATH"])
    env["PYTHONPATH"] = os.pathsep.join(pp)
    env.setdefault("FFCX_VERIF", "1")
    # keep HOME / XDG out of the picture: option files are part of the input
    env["XDG_CONFIG_HOME"] = "/nonexistent-verif-xdg"
    for k in ("OPENBLAS_NUM_THREADS", "OMP_NUM_THREADS", "MKL_NUM_THREADS", "NUMBA_NUM_THREADS"):
        env[k] = "1"  # BLAS worker threads triple the CPU cost of a child and decide nothing
    if extra:
        env.update(extra)
    return env


def reexec_fixed_hashseed():
    """The harness's own dict/set orders must not depend on the ambient hash seed."""
    want = os.environ.get("VERIF_HARNESS_HASHSEED", "0")
    if os.environ.get("PYTHONHASHSEED") != want or os.environ.get("OPENBLAS_NUM_THREADS") != "1":
        env = dict(os.environ)
        env["PYTHONHASHSEED"] = want
        for k in ("OPENBLAS_NUM_THREADS", "OMP_NUM_THREADS", "MKL_NUM_THREADS", "NUMBA_NUM_THREADS"):
            env[k] = "1"
        os.execve(sys.executable, [sys.executable] + sys.argv, env)


# --------------------------------------------------------------------------------------
# seeds


def base_seed():
    try:
        return int(os.environ.get("VERIF_SEED", "0"))
    except ValueError:
        return 0


def run_seed(base, i):
    return base * 1_000_003 + i


def rng_for(seed, stream=""):
    h = hashlib.sha256(f"{seed}/{stream}".encode()).digest()
    return random.Random(int.from_bytes(h[:8], "big"))


# --------------------------------------------------------------------------------------
# event log


class EventLog:
    def __init__(self):
        self.events = []

    def add(self, *ev):
        self.events.append(list(ev))

    def digest(self):
        return digest_of(self.events)


def digest_of(obj):
    return hashlib.sha256(
        json.dumps(obj, sort_keys=True, separators=(",", ":"), default=str).encode()
    ).hexdigest()


# --------------------------------------------------------------------------------------
# minimisation


def ddmin(items, still_fails, max_tests=200):
    """Classic ddmin over a list; ``still_fails(sub)`` -> bool.  Deterministic."""
    items = list(items)
    tests = 0
    n = 2
    while len(items) >= 2 and tests < max_tests:
        chunk = max(1, len(items) // n)
        subsets = [items[i : i + chunk] for i in range(0, len(items), chunk)]
        reduced = False
        for i in range(len(subsets)):
            comp = [x for j, s in enumerate(subsets) if j != i for x in s]
            tests += 1
            if comp != items and still_fails(comp):
                items = comp
                n = max(n - 1, 2)
                reduced = True
                break
            if tests >= max_tests:
                break
        if not reduced:
            if n >= len(items):
                break
            n = min(len(items), n * 2)
    if len(items) == 1 and tests < max_tests and still_fails([]):
        items = []
    return items


# --------------------------------------------------------------------------------------
# scratch space


_scratch_root = None


def scratch_root():
    global _scratch_root
    if _scratch_root is None:
        base = "/dev/shm" if os.path.isdir("/dev/shm") and os.access("/dev/shm", os.W_OK) else None
        _scratch_root = tempfile.mkdtemp(prefix=f"ffcx-verif-{os.getpid()}-", dir=base)
        import atexit

        owner = os.getpid()

        def _rm():
            if os.getpid() == owner:
                shutil.rmtree(_scratch_root, ignore_errors=True)

        atexit.register(_rm)
    return _scratch_root


def scratch_dir(prefix):
    return tempfile.mkdtemp(prefix=prefix, dir=scratch_root())


# --------------------------------------------------------------------------------------
# replay files, known findings


def write_replay(prop, seed, n, payload):
    os.makedirs(REPLAY_DIR, exist_ok=True)
    path = os.path.join(REPLAY_DIR, f"{prop}-{seed}-{n}.json")
    with open(path, "w") as f:
        json.dump(payload, f, indent=1, sort_keys=True, default=str)
    return path


def load_replay(path):
    with open(path) as f:
        return json.load(f)


def load_known_findings():
    """-> (known: {(property, key): text}, fixed: [line])"""
    known, fixed = {}, []
    if not os.path.exists(KNOWN_FINDINGS):
        return known, fixed
    for line in open(KNOWN_FINDINGS):
        line = line.strip()
        if line.startswith("KNOWN-FINDING:"):
            parts = line[len("KNOWN-FINDING:") :].split()
            kv = dict(p.split("=", 1) for p in parts[:2] if "=" in p)
            known[(kv.get("property"), kv.get("key"))] = " ".join(parts[2:])
        elif line.startswith("fixed:"):
            fixed.append(line)
    return known, fixed


class Verdicts:
    """Collects violations of one check run, splits them into known / new, prints the
    interface lines and yields the exit code."""

    def __init__(self, prop):
        self.prop = prop
        self.known, self.fixed = load_known_findings()
        self.new = []  # (key, replay_path, text)
        self.known_hit = {}  # key -> text
        self.harness = []

    def is_known(self, key):
        return (self.prop, key) in self.known

    def add(self, key, replay_path, text):
        if self.is_known(key):
            self.known_hit[key] = self.known[(self.prop, key)]
        else:
            self.new.append((key, replay_path, text))

    def add_harness(self, text):
        self.harness.append(text)

    def finish(self):
        for key, text in sorted(self.known_hit.items()):
            print(f"KNOWN-FINDING: property={self.prop} key={key} {text}")
        for text in self.harness:
            print(f"HARNESS-ERROR property={self.prop} {text}")
        for key, path, text in self.new:
            print(f"VIOLATION property={self.prop} replay={path}")
            print(f"  invariant={key} {text}")
        sys.stdout.flush()
        if self.new:
            return EXIT_VIOLATION
        if self.harness:
            return EXIT_HARNESS
        return EXIT_OK


# --------------------------------------------------------------------------------------
# evidence


def write_evidence(prop, tier, seed, level, coverage, assumptions, wall_s, violations):
    os.makedirs(EVIDENCE_DIR, exist_ok=True)
    ev = {
        "property_id": prop,
        "tier": tier,
        "seed": int(seed),
        "level": level,
        "coverage": coverage,
        "assumptions": list(assumptions),
        "wall_s": round(float(wall_s), 3),
        "violations": int(violations),
    }
    for k in ("evaluations", "distinct_nontrivial", "rule", "samples"):
        if k not in coverage:
            raise HarnessError(f"evidence coverage lacks {k}")
    # evidence describes /repo itself; a run against a scratch copy (VERIF_REPO) must not overwrite it
    # (nor a debugging run with a reduced budget: VERIF_NO_EVIDENCE / VERIF_RUNS / VERIF_ONLY)
    scratch = any(os.environ.get(k) for k in ("VERIF_REPO", "VERIF_NO_EVIDENCE", "VERIF_RUNS", "VERIF_ONLY"))
    edir = EVIDENCE_DIR if not scratch else os.path.join(VERIF, "replays", "scratch-evidence")
    os.makedirs(edir, exist_ok=True)
    path = os.path.join(edir, f"{prop}.json")
    tmp = path + ".tmp"
    with open(tmp, "w") as f:
        json.dump(ev, f, indent=1, sort_keys=True, default=str)
    os.replace(tmp, path)
    return path


# --------------------------------------------------------------------------------------
# worker pool


def n_workers():
    try:
        return max(1, int(os.environ.get("VERIF_WORKERS", "0")) or (os.cpu_count() or 4))
    except ValueError:
        return os.cpu_count() or 4


def _guarded(fn, arg, wall_cap):
    faulthandler.enable()
    if wall_cap:
        faulthandler.dump_traceback_later(wall_cap, exit=True)
    try:
        return fn(arg)
    finally:
        if wall_cap:
            faulthandler.cancel_dump_traceback_later()


def pmap(fn, args, workers=None, wall_cap=300, batch_cap=None, initializer=None, initargs=()):
    """Ordered parallel map over forked workers.  A worker that dies or exceeds the wall cap
    becomes a HarnessError (never silently dropped, never a hang)."""
    args = list(args)
    workers = min(workers or n_workers(), max(1, len(args)))
    if workers == 1 and initializer is None:
        return [_guarded(fn, a, 0) for a in args]
    ctx = multiprocessing.get_context("fork")
    results = [None] * len(args)
    t0 = time.time()
    with ProcessPoolExecutor(
        max_workers=workers, mp_context=ctx, initializer=initializer, initargs=initargs
    ) as ex:
        futs = {ex.submit(_guarded, fn, a, wall_cap): i for i, a in enumerate(args)}
        try:
            for fut in as_completed(futs, timeout=batch_cap):
                i = futs[fut]
                try:
                    results[i] = fut.result()
                except Exception as e:  # BrokenProcessPool etc.
                    raise HarnessError(f"worker failed on item {i}: {type(e).__name__}: {e}")
        except TimeoutError:
            for p in list(getattr(ex, "_processes", {}).values()):
                try:
                    p.kill()
                except Exception:
                    pass
            raise HarnessError(f"batch wall cap {batch_cap}s exceeded after {time.time() - t0:.0f}s")
    return results


def tier():
    t = os.environ.get("VERIF_TIER", "quick")
    return t if t in ("quick", "thorough") else "quick"


def dump_digests(pairs):
    """Determinism self-test hook: write [(run id, digest)] if VERIF_DIGESTS names a file."""
    path = os.environ.get("VERIF_DIGESTS")
    if path:
        with open(path, "w") as f:
            json.dump(sorted([str(a), str(b)] for a, b in pairs), f)
