"""UFL request pool shared by the three engines.

A request is a small UFL program stored as a list of statements.  The same text is
* exec'd by kernsim / jitsim to obtain the UFL objects (``objs``),
* exec'd by histsim with unrelated object creations spliced *between* the statements
  (the relative creation order of the request's own objects is part of the input:
  UFL numbers coefficients by it),
* written to a scratch ``.py`` file for ``ffcx.main.main`` (histsim ``cli`` op).

``kind`` is ``forms`` (objs = list of ufl.Form) or ``expressions`` (objs = list of
(expr, points)).  ``options`` are FFCx options passed at every compile of the request.
"""

from __future__ import annotations

PREAMBLE = "import basix.ufl\nimport ufl\nimport numpy as np\n"


class Request:
    def __init__(self, name, kind, stmts, options=None, tags=(), jit_kwargs=None):
        self.name = name
        self.kind = kind
        self.stmts = [s.strip("\n") for s in stmts]
        self.options = dict(options or {})
        self.tags = tuple(tags)
        self.jit_kwargs = dict(jit_kwargs or {})
        self.twin_of = None
        self.cfg_options = None  # options delivered through $PWD/ffcx_options.json
        self.jit_env = None  # environment variables in force while the JIT runs (CC, CFLAGS ...)

    def source(self):
        return PREAMBLE + "\n".join(self.stmts) + "\n"

    def build(self, between=None):
        """Exec the statements; ``between(i, ns)`` is called before statement i."""
        ns: dict = {}
        exec(PREAMBLE, ns)
        for i, s in enumerate(self.stmts):
            if between is not None:
                between(i, ns)
            exec(s, ns)
        return ns["objs"], ns

    def variant(self, suffix, options=None, jit_kwargs=None, tags=None, cfg=None):
        o = dict(self.options)
        o.update(options or {})
        k = dict(self.jit_kwargs)
        k.update(jit_kwargs or {})
        r = Request(
            self.name + suffix, self.kind, self.stmts, o, self.tags if tags is None else tags, k
        )
        r.cfg_options = dict(cfg) if cfg else None
        return r


def _mesh(cell, deg=1):
    gdim = {"interval": 1, "triangle": 2, "quadrilateral": 2, "tetrahedron": 3,
            "hexahedron": 3, "prism": 3}[cell]
    return f'mesh = ufl.Mesh(basix.ufl.element("Lagrange", "{cell}", {deg}, shape=({gdim},)))'


def _lagrange_form(name, cell, deg, integrand, extra=(), options=None, tags=(), measure="ufl.dx",
                   shape=None, family="Lagrange", geo_deg=1):
    shp = f", shape={shape}" if shape else ""
    st = [
        _mesh(cell, geo_deg),
        f'el = basix.ufl.element("{family}", "{cell}", {deg}{shp})',
        "V = ufl.FunctionSpace(mesh, el)",
        "u = ufl.TrialFunction(V)",
        "v = ufl.TestFunction(V)",
    ]
    st += list(extra)
    st.append(f"a = ({integrand}) * {measure}")
    st.append("objs = [a]")
    return Request(name, "forms", st, options, tags)


POOL: dict[str, Request] = {}


def _add(r):
    assert r.name not in POOL, r.name
    POOL[r.name] = r
    return r


# --- tiny requests (jitsim builds these with a real gcc -O0) -------------------------------
_add(_lagrange_form("mass_p1_interval", "interval", 1, "ufl.inner(u, v)", tags=("tiny", "kern")))
_add(
    _lagrange_form(
        "laplace_p1_tri_coeff",
        "triangle",
        1,
        "f * ufl.inner(ufl.grad(u), ufl.grad(v))",
        extra=["f = ufl.Coefficient(V)"],
        tags=("tiny", "kern"),
    )
)
_add(
    Request(
        "expr_p1_tri_2pts",
        "expressions",
        [
            _mesh("triangle"),
            'el = basix.ufl.element("Lagrange", "triangle", 1)',
            "V = ufl.FunctionSpace(mesh, el)",
            "f = ufl.Coefficient(V)",
            "pts = np.array([[0.25, 0.25], [0.5, 0.125]], dtype=np.float64)",
            "objs = [(f * ufl.grad(f)[0] + f, pts)]",
        ],
        tags=("tiny", "kern", "expr"),
    )
)

# --- mass / stiffness on the cell zoo -----------------------------------------------------
for _cell in ("interval", "triangle", "tetrahedron", "quadrilateral", "hexahedron"):
    for _deg in (1, 2):
        if _cell == "hexahedron" and _deg == 2:
            continue
        _add(
            _lagrange_form(
                f"stiff_p{_deg}_{_cell}",
                _cell,
                _deg,
                "ufl.inner(ufl.grad(u), ufl.grad(v)) + ufl.inner(u, v)",
                tags=("kern", "zoo"),
            )
        )
_add(_lagrange_form("mass_p3_triangle", "triangle", 3, "ufl.inner(u, v)", tags=("kern", "zoo")))

_add(
    _lagrange_form(
        "coeff_const_tri",
        "triangle",
        2,
        "k[0, 0] * f * g * ufl.inner(ufl.grad(u), ufl.grad(v)) + s * ufl.inner(u, v) * g",
        extra=[
            "f = ufl.Coefficient(V)",
            'W = ufl.FunctionSpace(mesh, basix.ufl.element("Lagrange", "triangle", 1))',
            "g = ufl.Coefficient(W)",
            "k = ufl.Constant(mesh, shape=(2, 2))",
            "s = ufl.Constant(mesh)",
        ],
        tags=("kern", "multi-el"),
    )
)
_add(
    _lagrange_form(
        "elasticity_p2_tri",
        "triangle",
        2,
        "ufl.inner(ufl.sym(ufl.grad(u)), ufl.sym(ufl.grad(v))) + ufl.div(u) * ufl.div(v)",
        shape="(2,)",
        tags=("kern",),
    )
)
_add(
    Request(
        "taylor_hood_tri",
        "forms",
        [
            _mesh("triangle"),
            'P2 = basix.ufl.element("Lagrange", "triangle", 2, shape=(2,))',
            'P1 = basix.ufl.element("Lagrange", "triangle", 1)',
            "TH = basix.ufl.mixed_element([P2, P1])",
            "W = ufl.FunctionSpace(mesh, TH)",
            "(u, p) = ufl.TrialFunctions(W)",
            "(v, q) = ufl.TestFunctions(W)",
            "a = (ufl.inner(ufl.grad(u), ufl.grad(v)) - ufl.div(v) * p + q * ufl.div(u)) * ufl.dx",
            "objs = [a]",
        ],
        tags=("kern", "multi-el"),
    )
)
_add(
    _lagrange_form(
        "curlcurl_n1_tet",
        "tetrahedron",
        1,
        "ufl.inner(ufl.curl(u), ufl.curl(v)) + ufl.inner(u, v)",
        family="N1curl",
        tags=("kern",),
    )
)
_add(
    _lagrange_form(
        "rt_quad_nonaffine",
        "quadrilateral",
        1,
        "ufl.inner(u, v) + ufl.div(u) * ufl.div(v)",
        family="RTCF",
        tags=("kern",),
    )
)
_add(
    _lagrange_form(
        "ext_facet_normal_tri",
        "triangle",
        2,
        "ufl.inner(ufl.dot(ufl.grad(u), n), v) + f * u * v",
        extra=["n = ufl.FacetNormal(mesh)", "f = ufl.Coefficient(V)"],
        measure="ufl.ds",
        tags=("kern", "facet"),
    )
)
for _cell in ("triangle", "tetrahedron"):
    _add(
        _lagrange_form(
            f"dg_jump_{_cell}",
            _cell,
            1,
            "ufl.inner(ufl.jump(u), ufl.jump(v)) + ufl.inner(ufl.avg(ufl.grad(u)), "
            "ufl.jump(v, n)) + f('+') * u('-') * v('+')",
            extra=["n = ufl.FacetNormal(mesh)", "f = ufl.Coefficient(V)"],
            measure="ufl.dS",
            family="Discontinuous Lagrange",
            tags=("kern", "facet", "interior"),
        )
    )
_add(
    _lagrange_form(
        "dg_jump_hex",
        "hexahedron",
        1,
        "ufl.inner(ufl.jump(u), ufl.jump(v)) + f('+') * ufl.avg(u) * ufl.avg(v)",
        extra=["f = ufl.Coefficient(V)"],
        measure="ufl.dS",
        family="Discontinuous Lagrange",
        tags=("kern", "facet", "interior"),
    )
)
_add(
    Request(
        "vertex_integral_tri",
        "forms",
        [
            _mesh("triangle"),
            'el = basix.ufl.element("Lagrange", "triangle", 2)',
            "V = ufl.FunctionSpace(mesh, el)",
            "v = ufl.TestFunction(V)",
            "f = ufl.Coefficient(V)",
            "L = f * v * ufl.dP",
            "objs = [L]",
        ],
        tags=("kern", "vertex"),
    )
)
_add(
    _lagrange_form(
        "prism_ds",
        "prism",
        1,
        "ufl.inner(u, v)",
        measure="ufl.ds",
        tags=("kern", "facet", "prism"),
    )
)
_add(
    Request(
        "two_qdegrees_tri",
        "forms",
        [
            _mesh("triangle"),
            'el = basix.ufl.element("Lagrange", "triangle", 2)',
            "V = ufl.FunctionSpace(mesh, el)",
            "u = ufl.TrialFunction(V)",
            "v = ufl.TestFunction(V)",
            "f = ufl.Coefficient(V)",
            'a = f * ufl.inner(u, v) * ufl.dx(1, degree=2) + ufl.inner(ufl.grad(u), ufl.grad(v)) '
            '* ufl.dx(1, degree=5) + u * v * ufl.dx(2)',
            "objs = [a]",
        ],
        tags=("kern", "multi-rule"),
    )
)
_add(
    Request(
        "sumfact_q2_hex",
        "forms",
        [
            "tp = basix.create_tp_element(basix.ElementFamily.P, basix.CellType.hexahedron, 2, "
            "basix.LagrangeVariant.gll_warped)",
            "tp1 = basix.create_tp_element(basix.ElementFamily.P, basix.CellType.hexahedron, 1, "
            "basix.LagrangeVariant.gll_warped)",
            "mesh = ufl.Mesh(basix.ufl.blocked_element(basix.ufl.wrap_element(tp1), shape=(3,)))",
            "V = ufl.FunctionSpace(mesh, basix.ufl.wrap_element(tp))",
            "u = ufl.TrialFunction(V)",
            "v = ufl.TestFunction(V)",
            "a = ufl.inner(ufl.grad(u), ufl.grad(v)) * ufl.dx",
            "objs = [a]",
        ],
        options={"sum_factorization": True},
        tags=("kern", "sumfact"),
    )
)
_add(
    _lagrange_form(
        "diagonal_p2_tri",
        "triangle",
        2,
        "ufl.inner(ufl.grad(u), ufl.grad(v)) + u * v",
        options={"part": "diagonal"},
        tags=("kern",),
    )
)
_add(
    _lagrange_form(
        "conditional_math_tri",
        "triangle",
        1,
        "ufl.conditional(ufl.gt(f, 1.0), ufl.sin(f), ufl.exp(-f)) * ufl.sqrt(1 + f * f) "
        "* ufl.inner(u, v) + ufl.max_value(f, 1.1) * ufl.inner(ufl.grad(u), ufl.grad(v))",
        extra=["f = ufl.Coefficient(V)"],
        tags=("kern",),
    )
)
_add(
    _lagrange_form(
        "helmholtz_complex_tri",
        "triangle",
        1,
        "ufl.inner(ufl.grad(u), ufl.grad(v)) - k * ufl.inner(u, v) + ufl.inner(f * u, v)",
        extra=["k = ufl.Constant(mesh)", "f = ufl.Coefficient(V)"],
        options={"scalar_type": "complex128"},
        tags=("kern", "complex"),
    )
)
_add(
    Request(
        "linear_rhs_tet",
        "forms",
        [
            _mesh("tetrahedron"),
            'el = basix.ufl.element("Lagrange", "tetrahedron", 2)',
            "V = ufl.FunctionSpace(mesh, el)",
            "v = ufl.TestFunction(V)",
            "f = ufl.Coefficient(V)",
            "x = ufl.SpatialCoordinate(mesh)",
            "L = f * (1 + x[0] * x[1]) * v * ufl.dx",
            "objs = [L]",
        ],
        tags=("kern",),
    )
)
_add(
    Request(
        "functional_tri_p2geo",
        "forms",
        [
            _mesh("triangle", 2),
            'el = basix.ufl.element("Lagrange", "triangle", 2)',
            "V = ufl.FunctionSpace(mesh, el)",
            "f = ufl.Coefficient(V)",
            "M = f * f * ufl.dx",
            "objs = [M]",
        ],
        tags=("kern",),
    )
)
_add(
    Request(
        "two_forms_tri",
        "forms",
        [
            _mesh("triangle"),
            'el = basix.ufl.element("Lagrange", "triangle", 1)',
            "V = ufl.FunctionSpace(mesh, el)",
            "u = ufl.TrialFunction(V)",
            "v = ufl.TestFunction(V)",
            "f = ufl.Coefficient(V)",
            "a = ufl.inner(ufl.grad(u), ufl.grad(v)) * ufl.dx",
            "L = f * v * ufl.dx + f * v * ufl.ds",
            "objs = [a, L]",
        ],
        tags=("kern", "multi-form"),
    )
)
_add(
    Request(
        "hyperelastic_tet",
        "forms",
        [
            _mesh("tetrahedron"),
            'el = basix.ufl.element("Lagrange", "tetrahedron", 1, shape=(3,))',
            "V = ufl.FunctionSpace(mesh, el)",
            "v = ufl.TestFunction(V)",
            "du = ufl.TrialFunction(V)",
            "w = ufl.Coefficient(V)",
            "Fd = ufl.Identity(3) + ufl.grad(w)",
            "Cg = Fd.T * Fd",
            "psi = 0.5 * (ufl.tr(Cg) - 3) + (ufl.det(Fd) - 1) ** 2",
            "Fv = ufl.derivative(psi * ufl.dx, w, v)",
            "Jv = ufl.derivative(Fv, w, du)",
            "objs = [Jv]",
        ],
        tags=("kern", "big"),
    )
)
_add(
    Request(
        "expr_facet_tri",
        "expressions",
        [
            _mesh("triangle"),
            'el = basix.ufl.element("Lagrange", "triangle", 2)',
            "V = ufl.FunctionSpace(mesh, el)",
            "f = ufl.Coefficient(V)",
            "n = ufl.FacetNormal(mesh)",
            "pts = np.array([[0.3], [0.8]], dtype=np.float64)",
            "objs = [(ufl.dot(ufl.grad(f), n), pts)]",
        ],
        tags=("kern", "expr"),
    )
)
_add(
    Request(
        "expr_rank1_tet",
        "expressions",
        [
            _mesh("tetrahedron"),
            'el = basix.ufl.element("Lagrange", "tetrahedron", 2)',
            "V = ufl.FunctionSpace(mesh, el)",
            "u = ufl.TrialFunction(V)",
            "c = ufl.Constant(mesh)",
            "pts = np.array([[0.1, 0.2, 0.3], [0.25, 0.25, 0.25], [0.6, 0.1, 0.1]])",
            "objs = [(c * ufl.grad(u), pts)]",
        ],
        tags=("kern", "expr"),
    )
)

# scalar-type variants (kernsim + C13 near-miss family)
POOL["stiff_p2_triangle"].tags += ("family-base",)
for _st in ("float32", "complex64", "complex128"):
    _add(POOL["stiff_p2_triangle"].variant("@" + _st, options={"scalar_type": _st},
                                           tags=("kern", "family")))
_add(POOL["mass_p1_interval"].variant("@float32", options={"scalar_type": "float32"},
                                      tags=("kern", "family")))

# option near-miss family for C13 (same form, one option changed)
for _k, _v in (
    ("epsilon", 1e-12),
    ("table_rtol", 1e-5),
    ("table_atol", 1e-8),
    ("part", "diagonal"),
):
    _add(POOL["stiff_p2_triangle"].variant(f"@{_k}", options={_k: _v}, tags=("family",)))
_add(POOL["stiff_p2_triangle"].variant("@O2", jit_kwargs={"cffi_extra_compile_args": ["-O2"]},
                                       tags=("family", "jitonly")))
_add(POOL["stiff_p2_triangle"].variant("@O0g", jit_kwargs={"cffi_extra_compile_args": ["-O0", "-g"]},
                                       tags=("family", "jitonly")))
_add(POOL["stiff_p2_triangle"].variant("@debug", jit_kwargs={"cffi_debug": True},
                                       tags=("family", "jitonly")))


# expression-point near-miss family for C13
def _expr_points(name, ptsrc, tags=("family", "points")):
    return _add(
        Request(
            name,
            "expressions",
            [
                _mesh("triangle"),
                'el = basix.ufl.element("Lagrange", "triangle", 1)',
                "V = ufl.FunctionSpace(mesh, el)",
                "f = ufl.Coefficient(V)",
                ptsrc,
                "objs = [(f * f, pts)]",
            ],
            tags=tags,
        )
    )


_expr_points("pts_base", "pts = np.array([[0.25, 0.25], [0.5, 0.125]], dtype=np.float64)")
_expr_points("pts_eps10", "pts = np.array([[0.25, 0.25], [0.5, 0.125 + 1e-10]], dtype=np.float64)")
_expr_points("pts_eps3", "pts = np.array([[0.25, 0.25], [0.5, 0.126]], dtype=np.float64)")
_expr_points("pts_f32", "pts = np.array([[0.25, 0.25], [0.5, 0.125]], dtype=np.float32)")
_expr_points("pts_swapped", "pts = np.array([[0.5, 0.125], [0.25, 0.25]], dtype=np.float64)")
_expr_points(
    "pts_big_a",
    "pts = (np.arange(1200, dtype=np.float64).reshape(600, 2) % 7) / 20.0",
)
_expr_points(
    "pts_big_b",
    "pts = (np.arange(1200, dtype=np.float64).reshape(600, 2) % 7) / 20.0; pts[300, 1] = 0.123",
)
_add(
    _lagrange_form(
        "stiff_p2_quadrilateral_same_integrand",
        "quadrilateral",
        2,
        "ufl.inner(ufl.grad(u), ufl.grad(v))",
        tags=("family",),
    )
)
_add(
    _lagrange_form(
        "stiff_p2_triangle_same_integrand",
        "triangle",
        2,
        "ufl.inner(ufl.grad(u), ufl.grad(v))",
        tags=("family",),
    )
)


def by_tag(tag, exclude=()):
    return [r for r in POOL.values() if tag in r.tags and not any(e in r.tags for e in exclude)]


def get(name):
    return POOL[name]


# ---- additions after the first round of seeded changes -------------------------------------

# option variants whose effect on the tables is visible (clamping / zero-dropping thresholds)
for _k, _v in (("table_atol", 5e-2), ("table_rtol", 5e-2), ("epsilon", 1e-1)):
    _add(POOL["stiff_p2_triangle"].variant(f"@{_k}-big", options={_k: _v}, tags=("family",)))
    _add(POOL["helmholtz_complex_tri"].variant(f"@{_k}-big", options={_k: _v}, tags=("family",)))
_add(
    _lagrange_form(
        "mass_p2_triangle", "triangle", 2, "ufl.inner(u, v)", tags=("kern", "family")
    )
)
_add(POOL["mass_p2_triangle"].variant("@table_atol-big", options={"table_atol": 5e-2}, tags=("family",)))


# expressions of the same shape with different integrands (address reuse after one is dropped)
def _expr_fn(name, body, tags=("family", "exprfam")):
    return _add(
        Request(
            name,
            "expressions",
            [
                _mesh("triangle"),
                'el = basix.ufl.element("Lagrange", "triangle", 1)',
                "V = ufl.FunctionSpace(mesh, el)",
                "f = ufl.Coefficient(V)",
                "pts = np.array([[0.25, 0.25], [0.5, 0.125]], dtype=np.float64)",
                f"objs = [({body}, pts)]",
            ],
            tags=tags,
        )
    )


for _i in (1, 3, 5, 7):
    _expr_fn(f"expr_sin{_i}", f"ufl.sin({_i} * f)")
_expr_fn("expr_cos3", "ufl.cos(3 * f)")
_expr_fn("expr_sin3_plus", "ufl.sin(3 * f) + f")


# the same two-mesh expression with the meshes created in either order ("twins": the request is
# the same, only the creation order - hence the global ufl_id of each mesh - differs)
def _two_mesh(name, order, twin_of=None):
    mk = {"A": 'meshA = ufl.Mesh(basix.ufl.element("Lagrange", "triangle", 1, shape=(2,)))',
          "B": 'meshB = ufl.Mesh(basix.ufl.element("Lagrange", "triangle", 1, shape=(2,)))'}
    r = Request(
        name,
        "expressions",
        [mk[order[0]], mk[order[1]],
         'el = basix.ufl.element("Lagrange", "triangle", 2)',
         "f = ufl.Coefficient(ufl.FunctionSpace(meshA, el))",
         "g = ufl.Coefficient(ufl.FunctionSpace(meshB, el))",
         "pts = np.array([[0.25, 0.25], [0.5, 0.1]])",
         "objs = [(f * g.dx(0) + f**2, pts)]"],
        tags=("family", "twin", "namesonly"),
    )
    r.twin_of = twin_of
    return _add(r)


_two_mesh("expr_two_mesh_ab", "AB")
_two_mesh("expr_two_mesh_ba", "BA", twin_of="expr_two_mesh_ab")


# ---- additions after the second round of seeded changes ------------------------------------

# kernels with more than 32 dofs per block (large hoisted temporaries, long tables)
_add(
    _lagrange_form(
        "mass_p4_tet_coeff", "tetrahedron", 4, "f * ufl.inner(u, v)",
        extra=["f = ufl.Coefficient(V)"], tags=("kern", "zoo", "highorder"),
    )
)
_add(
    _lagrange_form(
        "mass_q3_hex", "hexahedron", 3, "ufl.inner(u, v)", tags=("kern", "zoo", "highorder", "slow"),
    )
)
_add(
    _lagrange_form(
        "stiff_p4_triangle_coeff", "triangle", 4, "f * ufl.inner(ufl.grad(u), ufl.grad(v))",
        extra=["f = ufl.Coefficient(V)"], tags=("kern", "zoo", "highorder"),
    )
)
# two coefficients in different elements whose tables are numerically identical (scalar P1 and a
# component of vector P1), test function in another space: which table name wins is decided by
# the order in which the terminals are visited
_add(
    Request(
        "shared_table_two_coeffs",
        "forms",
        [
            _mesh("triangle"),
            'P1 = ufl.FunctionSpace(mesh, basix.ufl.element("Lagrange", "triangle", 1))',
            'VP1 = ufl.FunctionSpace(mesh, basix.ufl.element("Lagrange", "triangle", 1, shape=(2,)))',
            'P2 = ufl.FunctionSpace(mesh, basix.ufl.element("Lagrange", "triangle", 2))',
            "f = ufl.Coefficient(P1)",
            "g = ufl.Coefficient(VP1)",
            "v = ufl.TestFunction(P2)",
            "L = f * g[1] * v * ufl.dx",
            "objs = [L]",
        ],
        tags=("kern", "multi-el"),
    )
)
_add(
    Request(
        "shared_table_three_coeffs",
        "forms",
        [
            _mesh("tetrahedron"),
            'P1 = ufl.FunctionSpace(mesh, basix.ufl.element("Lagrange", "tetrahedron", 1))',
            'VP1 = ufl.FunctionSpace(mesh, basix.ufl.element("Lagrange", "tetrahedron", 1, shape=(3,)))',
            'P2 = ufl.FunctionSpace(mesh, basix.ufl.element("Lagrange", "tetrahedron", 2))',
            "f = ufl.Coefficient(P1)",
            "g = ufl.Coefficient(VP1)",
            "h = ufl.Coefficient(P1)",
            "k = ufl.Constant(mesh)",
            "v = ufl.TestFunction(P2)",
            "L = k * f * g[2] * h * v * ufl.dx + f * g[0] * v * ufl.ds",
            "objs = [L]",
        ],
        tags=("kern", "multi-el"),
    )
)


# ---- additions in the third session ---------------------------------------------------------

# numpy arrays inside the *form* signature: custom quadrature rules in the measure's metadata
# and quadrature elements defined by points.  UFL / basix put str(array) / repr(array) of them
# into the signature, which is neither injective (8 significant digits, '...' for > 1000
# entries) nor independent of numpy's process-global print options.
_CQ_PTS = "np.array([[0.2, 0.2], [0.6, 0.2], [0.2, 0.6 + {eps}]], dtype=np.float64)"


def _custom_quad(name, eps, tags=("family", "cquad", "npstr")):
    return _add(
        Request(
            name,
            "forms",
            [
                _mesh("triangle"),
                'el = basix.ufl.element("Lagrange", "triangle", 1)',
                "V = ufl.FunctionSpace(mesh, el)",
                "u = ufl.TrialFunction(V)",
                "v = ufl.TestFunction(V)",
                "qpts = " + _CQ_PTS.format(eps=eps),
                "qwts = np.array([1.0, 1.0, 1.0], dtype=np.float64) / 6.0",
                'a = ufl.inner(u, v) * ufl.dx(metadata={"quadrature_rule": "custom", '
                '"quadrature_points": qpts, "quadrature_weights": qwts})',
                "objs = [a]",
            ],
            tags=tags,
        )
    )


_custom_quad("cquad_base", "0.0", tags=("family", "cquad", "npstr", "kern"))
_custom_quad("cquad_eps10", "1e-10")
_custom_quad("cquad_eps3", "1e-3")


def _custom_quad_big(name, row, tags=("family", "cquad", "npstr")):
    # 600 points: numpy elides the middle of arrays with more than 1000 entries
    return _add(
        Request(
            name,
            "forms",
            [
                _mesh("triangle"),
                'el = basix.ufl.element("Lagrange", "triangle", 1)',
                "V = ufl.FunctionSpace(mesh, el)",
                "v = ufl.TestFunction(V)",
                "qpts = ((np.arange(1200, dtype=np.float64).reshape(600, 2) % 7) + 1) / 20.0"
                + (f"; qpts[{row}, 1] = 0.123" if row is not None else ""),
                "qwts = np.full(600, 0.5 / 600)",
                'L = v * ufl.dx(metadata={"quadrature_rule": "custom", '
                '"quadrature_points": qpts, "quadrature_weights": qwts})',
                "objs = [L]",
            ],
            tags=tags,
        )
    )


_custom_quad_big("cquad_big_a", None)
_custom_quad_big("cquad_big_b", 300)


def _quad_element(name, eps, tags=("family", "qelem", "npstr")):
    return _add(
        Request(
            name,
            "forms",
            [
                _mesh("triangle"),
                "qpts = " + _CQ_PTS.format(eps=eps),
                "qwts = np.array([1.0, 1.0, 1.0], dtype=np.float64) / 6.0",
                'qe = basix.ufl.quadrature_element("triangle", points=qpts, weights=qwts)',
                "Q = ufl.FunctionSpace(mesh, qe)",
                'V = ufl.FunctionSpace(mesh, basix.ufl.element("Lagrange", "triangle", 1))',
                "f = ufl.Coefficient(Q)",
                "v = ufl.TestFunction(V)",
                'L = f * v * ufl.dx(metadata={"quadrature_rule": "custom", '
                '"quadrature_points": qpts, "quadrature_weights": qwts})',
                "objs = [L]",
            ],
            tags=tags,
        )
    )


_quad_element("qelem_base", "0.0", tags=("family", "qelem", "npstr", "kern"))
_quad_element("qelem_eps10", "1e-10")
# the same element points, but a rule in the measure that differs: only the element repr differs
_add(
    Request(
        "qelem_only_eps10",
        "forms",
        [
            _mesh("triangle"),
            "qpts = " + _CQ_PTS.format(eps="1e-10"),
            "qwts = np.array([1.0, 1.0, 1.0], dtype=np.float64) / 6.0",
            'qe = basix.ufl.quadrature_element("triangle", points=qpts, weights=qwts)',
            "Q = ufl.FunctionSpace(mesh, qe)",
            'V = ufl.FunctionSpace(mesh, basix.ufl.element("Lagrange", "triangle", 1))',
            "f = ufl.Coefficient(Q)",
            "v = ufl.TestFunction(V)",
            "rpts = " + _CQ_PTS.format(eps="0.0"),
            'L = f * v * ufl.dx(metadata={"quadrature_rule": "custom", '
            '"quadrature_points": rpts, "quadrature_weights": qwts})',
            "objs = [L]",
        ],
        tags=("family", "qelem", "npstr"),
    )
)


# evaluation points in Fortran order, and the C-ordered array that has the same bytes in memory:
# same shape, same dtype, same buffer content, different points
_expr_points("pts_forder", "pts = np.asfortranarray(np.array([[0.25, 0.125], [0.5, 0.25], [0.1, 0.7]]))")
_expr_points(
    "pts_corder_same_bytes",
    "pts = np.array([[0.25, 0.125], [0.5, 0.25], [0.1, 0.7]]).T.copy().reshape(3, 2)",
)
_expr_points("pts_corder_same_points", "pts = np.array([[0.25, 0.125], [0.5, 0.25], [0.1, 0.7]])")
POOL["pts_corder_same_points"].twin_of = "pts_forder"

# options that reach FFCx through $PWD/ffcx_options.json instead of the call: they change the
# kernels just the same ("goldonly": the file is read once per process, so these requests are
# only run alone in a fresh process, for the separation oracle)
_add(
    Request(
        "tp_stiff_q2_quad",
        "forms",
        [
            "tp = basix.create_tp_element(basix.ElementFamily.P, basix.CellType.quadrilateral, 2, "
            "basix.LagrangeVariant.gll_warped)",
            "tp1 = basix.create_tp_element(basix.ElementFamily.P, basix.CellType.quadrilateral, 1, "
            "basix.LagrangeVariant.gll_warped)",
            "mesh = ufl.Mesh(basix.ufl.blocked_element(basix.ufl.wrap_element(tp1), shape=(2,)))",
            "V = ufl.FunctionSpace(mesh, basix.ufl.wrap_element(tp))",
            "u = ufl.TrialFunction(V)",
            "v = ufl.TestFunction(V)",
            "a = ufl.inner(ufl.grad(u), ufl.grad(v)) * ufl.dx",
            "objs = [a]",
        ],
        tags=("kern", "family"),
    )
)
for _k, _v in (("scalar_type", "float32"), ("table_atol", 5e-2)):
    _add(POOL["stiff_p2_triangle"].variant(f"@cfg-{_k}", cfg={_k: _v}, tags=("family", "goldonly")))
_add(POOL["expr_p1_tri_2pts"].variant("@cfg-scalar_type", cfg={"scalar_type": "float32"},
                                      tags=("family", "goldonly", "expr")))

# requests that FFCx rejects (used only as *earlier, failed* compilations in histories)
_add(
    Request(
        "bad_nonlinear_in_argument",
        "expressions",
        [
            _mesh("quadrilateral"),
            'el = basix.ufl.element("Lagrange", "quadrilateral", 1)',
            "V = ufl.FunctionSpace(mesh, el)",
            "u = ufl.TrialFunction(V)",
            "pts = np.array([[0.25, 0.25], [0.5, 0.125]], dtype=np.float64)",
            "objs = [(ufl.sqrt(u * u + 1), pts)]",
        ],
        tags=("bad",),
    )
)
_add(
    _lagrange_form(
        "bad_nonlinear_form", "triangle", 1, "ufl.sin(u) * v", tags=("bad",),
    )
)
# simplex and facet integrals next to a tensor-product cell integral: what an option that only
# applies to some integrals (sum_factorization) must not do to the others
_add(
    _lagrange_form(
        "stiff_q1_quad_with_facets", "quadrilateral", 1,
        "ufl.inner(ufl.grad(u), ufl.grad(v))", tags=("kern",),
    )
)
POOL["stiff_q1_quad_with_facets"].stmts[-2] = (
    "a = ufl.inner(ufl.grad(u), ufl.grad(v)) * ufl.dx + ufl.inner(u, v) * ufl.ds"
)
_add(POOL["tp_stiff_q2_quad"].variant("@sumfact", options={"sum_factorization": True},
                                      tags=("family", "kern")))
_add(POOL["tp_stiff_q2_quad"].variant("@cfg-sum_factorization", cfg={"sum_factorization": True},
                                      tags=("family", "goldonly")))


# ---- kernel-pool additions (third session) --------------------------------------------------
# every block vanishes in table analysis: the kernel body is empty and must still leave A alone
_add(
    _lagrange_form(
        "vanishing_hessian_p1_tri", "triangle", 1,
        "ufl.inner(ufl.grad(ufl.grad(u)), ufl.grad(ufl.grad(v)))", tags=("kern",),
    )
)
_add(
    Request(
        "vanishing_linear_ds_p1_tri",
        "forms",
        [
            _mesh("triangle"),
            'el = basix.ufl.element("Lagrange", "triangle", 1)',
            "V = ufl.FunctionSpace(mesh, el)",
            "v = ufl.TestFunction(V)",
            "f = ufl.Coefficient(V)",
            "L = ufl.div(ufl.grad(f)) * v * ufl.ds",
            "objs = [L]",
        ],
        tags=("kern",),
    )
)
# interior facet with coefficients restricted to '-' (the last coefficient's '-' block is the
# end of w), jump and avg of coefficients
_add(
    Request(
        "dg_coeff_minus_tri",
        "forms",
        [
            _mesh("triangle"),
            'el = basix.ufl.element("Discontinuous Lagrange", "triangle", 1)',
            'el2 = basix.ufl.element("Discontinuous Lagrange", "triangle", 2)',
            "V = ufl.FunctionSpace(mesh, el)",
            "W = ufl.FunctionSpace(mesh, el2)",
            "u = ufl.TrialFunction(V)",
            "v = ufl.TestFunction(V)",
            "f = ufl.Coefficient(V)",
            "g = ufl.Coefficient(W)",
            "a = (ufl.jump(f) * ufl.avg(u) * ufl.avg(v) + g('-') * u('+') * v('-') "
            "+ ufl.avg(g) * ufl.inner(ufl.jump(ufl.grad(u)), ufl.jump(ufl.grad(v)))) * ufl.dS",
            "objs = [a]",
        ],
        tags=("kern", "facet", "interior"),
    )
)
_add(
    Request(
        "dg_coeff_minus_linear_tet",
        "forms",
        [
            _mesh("tetrahedron"),
            'el = basix.ufl.element("Discontinuous Lagrange", "tetrahedron", 1)',
            "V = ufl.FunctionSpace(mesh, el)",
            "v = ufl.TestFunction(V)",
            "f = ufl.Coefficient(V)",
            "g = ufl.Coefficient(V)",
            "L = (f('+') * g('-') * v('-') + ufl.jump(g) * ufl.avg(v)) * ufl.dS",
            "objs = [L]",
        ],
        tags=("kern", "facet", "interior"),
    )
)
# manifold: triangle cells embedded in 3D
_add(
    Request(
        "stiff_p1_tri_manifold",
        "forms",
        [
            'mesh = ufl.Mesh(basix.ufl.element("Lagrange", "triangle", 1, shape=(3,)))',
            'el = basix.ufl.element("Lagrange", "triangle", 1)',
            "V = ufl.FunctionSpace(mesh, el)",
            "u = ufl.TrialFunction(V)",
            "v = ufl.TestFunction(V)",
            "a = (ufl.inner(ufl.grad(u), ufl.grad(v)) + u * v) * ufl.dx",
            "objs = [a]",
        ],
        tags=("kern",),
    )
)
# expression whose coefficient lives on a quadrature element / with a vector constant
_add(
    Request(
        "expr_vector_const_quad",
        "expressions",
        [
            _mesh("quadrilateral"),
            'el = basix.ufl.element("Lagrange", "quadrilateral", 2, shape=(2,))',
            "V = ufl.FunctionSpace(mesh, el)",
            "f = ufl.Coefficient(V)",
            "k = ufl.Constant(mesh, shape=(2,))",
            "pts = np.array([[0.25, 0.25], [0.5, 0.125], [0.9, 0.9]], dtype=np.float64)",
            "objs = [(ufl.dot(k, f) * ufl.div(f) + ufl.det(ufl.grad(f)), pts)]",
        ],
        tags=("kern", "expr"),
    )
)

# two expressions of one request whose signatures agree (same structure, different coefficient
# objects), and the same (expression, points) pair twice: the objects of one module need
# distinct names all the same
_add(
    Request(
        "expr_pair_equal_signature",
        "expressions",
        [
            _mesh("triangle"),
            'el = basix.ufl.element("Lagrange", "triangle", 1)',
            "V = ufl.FunctionSpace(mesh, el)",
            "f = ufl.Coefficient(V)",
            "g = ufl.Coefficient(V)",
            "pts = np.array([[0.25, 0.25], [0.5, 0.125]], dtype=np.float64)",
            "objs = [(f * f, pts), (g * g, pts)]",
        ],
        tags=("family", "identfam"),
    )
)
_add(
    Request(
        "expr_same_pair_twice",
        "expressions",
        [
            _mesh("triangle"),
            'el = basix.ufl.element("Lagrange", "triangle", 1)',
            "V = ufl.FunctionSpace(mesh, el)",
            "f = ufl.Coefficient(V)",
            "pts = np.array([[0.25, 0.25], [0.5, 0.125]], dtype=np.float64)",
            "e = (ufl.sin(f), pts)",
            "objs = [e, e]",
        ],
        tags=("family", "identfam"),
    )
)
_add(
    Request(
        "form_pair_equal_signature",
        "forms",
        [
            _mesh("triangle"),
            'el = basix.ufl.element("Lagrange", "triangle", 1)',
            "V = ufl.FunctionSpace(mesh, el)",
            "u = ufl.TrialFunction(V)",
            "v = ufl.TestFunction(V)",
            "f = ufl.Coefficient(V)",
            "g = ufl.Coefficient(V)",
            "a = f * u * v * ufl.dx",
            "objs = [a, g * u * v * ufl.dx, a]",
        ],
        tags=("family", "identfam"),
    )
)

# part='diagonal' on a mixed element: the JIT replaces the form by the sum of its diagonal blocks
_add(POOL["taylor_hood_tri"].variant("@diagonal", options={"part": "diagonal"}, tags=("family", "kern")))

# explicit index notation: the request's own free indices carry UFL's global Index counter
_add(
    Request(
        "index_notation_elasticity_tri",
        "forms",
        [
            _mesh("triangle"),
            'el = basix.ufl.element("Lagrange", "triangle", 1, shape=(2,))',
            "V = ufl.FunctionSpace(mesh, el)",
            "u = ufl.TrialFunction(V)",
            "v = ufl.TestFunction(V)",
            "f = ufl.Coefficient(V)",
            "i, j, k = ufl.indices(3)",
            "a = (u[i].dx(j) * v[i].dx(j) + f[k] * f[k] * u[i].dx(i) * v[j].dx(j)) * ufl.dx",
            "objs = [a]",
        ],
        tags=("kern",),
    )
)

# one form with cell integrals over two different meshes: two integral_data entries with the
# same (type, subdomain id)
_add(
    Request(
        "functional_over_two_meshes",
        "forms",
        [
            'meshA = ufl.Mesh(basix.ufl.element("Lagrange", "triangle", 1, shape=(2,)))',
            'meshB = ufl.Mesh(basix.ufl.element("Lagrange", "triangle", 1, shape=(2,)))',
            'el = basix.ufl.element("Lagrange", "triangle", 1)',
            "f = ufl.Coefficient(ufl.FunctionSpace(meshA, el))",
            "g = ufl.Coefficient(ufl.FunctionSpace(meshB, el))",
            "M = f * ufl.dx(meshA) + g * g * ufl.dx(meshB)",
            "objs = [M]",
        ],
        tags=("family", "identfam", "multidomain"),
    )
)

# ---- additions after the fourth round of seeded changes ---------------------------------------
# subdomain-id groups whose digits concatenate to the same string ((1, 2) vs (12,); (1, 123) vs
# (11, 23)): names built from ids must keep them apart
_add(
    _lagrange_form(
        "subdomain_groups_concat_tri", "triangle", 1, "0",
        extra=["k1 = ufl.Constant(mesh)", "k2 = ufl.Constant(mesh)"], tags=("family", "identfam", "kern"),
    )
)
POOL["subdomain_groups_concat_tri"].stmts[-2] = (
    "a = k1 * u * v * ufl.dx(1) + k1 * u * v * ufl.dx(2) + k2 * u * v * ufl.dx(12) "
    "+ u * v * ufl.ds((1, 123)) + 2 * u * v * ufl.ds((11, 23))"
)
# integer tables (facet-edge vertices of a tetrahedron) next to float literals of integral value
_add(
    Request(
        "facet_edge_vectors_tet",
        "forms",
        [
            _mesh("tetrahedron"),
            'el = basix.ufl.element("Lagrange", "tetrahedron", 1)',
            "V = ufl.FunctionSpace(mesh, el)",
            "v = ufl.TestFunction(V)",
            "fev = ufl.classes.FacetEdgeVectors(mesh)",
            "L = fev[0, 0] * v * ufl.ds + 2.0 * fev[1, 2] * v * ufl.ds",
            "objs = [L]",
        ],
        tags=("kern", "facet"),
    )
)
_add(
    _lagrange_form(
        "literal_floats_tri", "triangle", 1,
        "2.0 * k * u * v + 3.0 * f * u * v + 4.0 * ufl.inner(ufl.grad(u), ufl.grad(v)) + 1.0 * k * k * u * v",
        extra=["k = ufl.Constant(mesh)", "f = ufl.Coefficient(V)"], tags=("kern",),
    )
)
# linear forms whose only factor is constant on the cell, with more quadrature points than dofs
_add(
    Request(
        "linear_cellwise_const_qdeg4_tri",
        "forms",
        [
            _mesh("triangle"),
            'el = basix.ufl.element("Lagrange", "triangle", 1)',
            'el0 = basix.ufl.element("Discontinuous Lagrange", "triangle", 0)',
            "V = ufl.FunctionSpace(mesh, el)",
            "V0 = ufl.FunctionSpace(mesh, el0)",
            "v = ufl.TestFunction(V)",
            "k = ufl.Constant(mesh)",
            "g = ufl.Coefficient(V0)",
            'L = k * v * ufl.dx(metadata={"quadrature_degree": 4})',
            'L0 = g * v * ufl.dx(metadata={"quadrature_degree": 5})',
            "objs = [L, L0]",
        ],
        tags=("kern",),
    )
)


# ---- element zoo (fourth round): element kinds the first pool did not have --------------------
def _zoo(name, stmts, tags=("kern", "zoo2")):
    return _add(Request(name, "forms", [_mesh("triangle")] + stmts + ["objs = [a]"], tags=tags))


_zoo("real_coefficient_tri", [
    'R = ufl.FunctionSpace(mesh, basix.ufl.real_element("triangle", ()))',
    'V = ufl.FunctionSpace(mesh, basix.ufl.element("Lagrange", "triangle", 1))',
    "r = ufl.Coefficient(R)", "u = ufl.TrialFunction(V)", "v = ufl.TestFunction(V)",
    "a = r * u * v * ufl.dx"])
_zoo("real_test_function_tri", [
    'R = ufl.FunctionSpace(mesh, basix.ufl.real_element("triangle", ()))',
    'V = ufl.FunctionSpace(mesh, basix.ufl.element("Lagrange", "triangle", 1))',
    "u = ufl.TrialFunction(V)", "c = ufl.TestFunction(R)", "a = u * c * ufl.dx"])
_zoo("enriched_p1_bubble_tri", [
    'P1 = basix.ufl.element("Lagrange", "triangle", 1)', 'B = basix.ufl.element("Bubble", "triangle", 3)',
    "V = ufl.FunctionSpace(mesh, basix.ufl.enriched_element([P1, B]))",
    "u = ufl.TrialFunction(V)", "v = ufl.TestFunction(V)",
    "a = ufl.inner(ufl.grad(u), ufl.grad(v)) * ufl.dx"], tags=("kern", "zoo2", "npstr"))
_zoo("symmetric_tensor_p1_tri", [
    'S = basix.ufl.element("Lagrange", "triangle", 1, shape=(2, 2), symmetry=True)',
    "V = ufl.FunctionSpace(mesh, S)", "u = ufl.TrialFunction(V)", "v = ufl.TestFunction(V)",
    "f = ufl.Coefficient(V)", "a = ufl.inner(u, v) * ufl.dx + f[0, 1] * ufl.inner(u, v) * ufl.ds"])
_zoo("regge_tri", [
    'V = ufl.FunctionSpace(mesh, basix.ufl.element("Regge", "triangle", 1))',
    "u = ufl.TrialFunction(V)", "v = ufl.TestFunction(V)", "a = ufl.inner(u, v) * ufl.dx"])
_zoo("hhj_tri", [
    'V = ufl.FunctionSpace(mesh, basix.ufl.element("HHJ", "triangle", 1))',
    "u = ufl.TrialFunction(V)", "v = ufl.TestFunction(V)", "a = ufl.inner(u, v) * ufl.dx"])
_zoo("crouzeix_raviart_tri", [
    'V = ufl.FunctionSpace(mesh, basix.ufl.element("CR", "triangle", 1))',
    "u = ufl.TrialFunction(V)", "v = ufl.TestFunction(V)",
    "a = ufl.inner(ufl.grad(u), ufl.grad(v)) * ufl.dx"])
_zoo("dg0_coefficient_tri", [
    'V0 = ufl.FunctionSpace(mesh, basix.ufl.element("DG", "triangle", 0))',
    'V = ufl.FunctionSpace(mesh, basix.ufl.element("Lagrange", "triangle", 2))',
    "k = ufl.Coefficient(V0)", "u = ufl.TrialFunction(V)", "v = ufl.TestFunction(V)",
    "a = k * ufl.inner(ufl.grad(u), ufl.grad(v)) * ufl.dx + k('+') * ufl.jump(u) * ufl.jump(v) * ufl.dS"],
    tags=("kern", "zoo2", "facet", "interior"))
_zoo("quadrature_element_degree_tri", [
    'Q = ufl.FunctionSpace(mesh, basix.ufl.quadrature_element("triangle", degree=2))',
    'V = ufl.FunctionSpace(mesh, basix.ufl.element("Lagrange", "triangle", 1))',
    "q = ufl.Coefficient(Q)", "v = ufl.TestFunction(V)",
    'a = q * v * ufl.dx(metadata={"quadrature_degree": 2})'], tags=("kern", "zoo2", "npstr"))
_zoo("vertex_scheme_tri", [
    'V = ufl.FunctionSpace(mesh, basix.ufl.element("Lagrange", "triangle", 1))',
    "u = ufl.TrialFunction(V)", "v = ufl.TestFunction(V)",
    'a = u * v * ufl.dx(metadata={"quadrature_rule": "vertex", "quadrature_degree": 1})'])
_add(
    Request(
        "rt_tet_with_interior_facets",
        "forms",
        [
            _mesh("tetrahedron"),
            'V = ufl.FunctionSpace(mesh, basix.ufl.element("RT", "tetrahedron", 1))',
            "u = ufl.TrialFunction(V)", "v = ufl.TestFunction(V)",
            "a = (ufl.inner(u, v) + ufl.div(u) * ufl.div(v)) * ufl.dx + ufl.inner(u('+'), v('-')) * ufl.dS",
            "objs = [a]",
        ],
        tags=("kern", "zoo2", "facet", "interior", "slow"),
    )
)

# the scalar type spelled as a numpy type or dtype object instead of a string
import numpy as _np  # noqa: E402

for _lab, _val in (("npfloat32", _np.float32), ("dtypefloat32", _np.dtype("float32")),
                   ("npfloat64", _np.float64), ("dtypecomplex128", _np.dtype("complex128"))):
    _add(POOL["stiff_p2_triangle"].variant(f"@{_lab}", options={"scalar_type": _val},
                                           tags=("family", "nocli")))


# several requests compiled in one call
class Combined(Request):
    def __init__(self, name, parts, tags=("nocli", "combo")):
        self.parts = [POOL[p] for p in parts]
        assert len({p.kind for p in self.parts}) == 1 and not any(p.options for p in self.parts)
        super().__init__(name, self.parts[0].kind, [s for p in self.parts for s in p.stmts], None, tags)

    def build(self, between=None):
        objs, ns = [], {}
        for p in self.parts:
            o, n = p.build(between)
            objs += list(o)
            ns = n
        ns["objs"] = objs
        return objs, ns


_add(Combined("combo:mass_p1_interval+stiff_p2_triangle", ["mass_p1_interval", "stiff_p2_triangle"]))
_add(Combined("combo:stiff_p2_triangle+mass_p1_interval", ["stiff_p2_triangle", "mass_p1_interval"]))
_add(Combined("combo:taylor_hood_tri+coeff_const_tri+two_forms_tri",
              ["taylor_hood_tri", "coeff_const_tri", "two_forms_tri"]))
_add(Combined("combo:expr_p1_tri_2pts+expr_facet_tri+expr_rank1_tet",
              ["expr_p1_tri_2pts", "expr_facet_tri", "expr_rank1_tet"]))


# ---- geometric quantities (cell / facet measures, edge lengths, Jacobians) ---------------------
def _geo(name, cell, integrand, measure, tags=("kern", "geo")):
    return _add(
        Request(
            name,
            "forms",
            [
                _mesh(cell),
                f'el = basix.ufl.element("Lagrange", "{cell}", 1)',
                "V = ufl.FunctionSpace(mesh, el)",
                "v = ufl.TestFunction(V)",
                "f = ufl.Coefficient(V)",
                f"L = ({integrand}) * {measure}",
                "objs = [L]",
            ],
            tags=tags,
        )
    )


_geo("cell_geometry_tri", "triangle",
     "ufl.CellVolume(mesh) * ufl.Circumradius(mesh) * ufl.CellDiameter(mesh) * ufl.MinCellEdgeLength(mesh) "
     "* ufl.MaxCellEdgeLength(mesh) * f * v", "ufl.dx")
_geo("facet_geometry_tri", "triangle",
     "ufl.FacetArea(mesh) * ufl.CellVolume(mesh) * ufl.FacetNormal(mesh)[0] * f * v", "ufl.ds",
     tags=("kern", "geo", "facet"))
_geo("facet_geometry_tet", "tetrahedron",
     "ufl.FacetArea(mesh) * ufl.MinFacetEdgeLength(mesh) * ufl.MaxFacetEdgeLength(mesh) "
     "* ufl.FacetNormal(mesh)[2] * f * v", "ufl.ds", tags=("kern", "geo", "facet"))
_geo("facet_geometry_tet_interior", "tetrahedron",
     "ufl.avg(ufl.FacetArea(mesh)) * ufl.avg(ufl.CellVolume(mesh)) * ufl.jump(f) * ufl.FacetNormal(mesh)('+')[1] * v('-')",
     "ufl.dS", tags=("kern", "geo", "facet", "interior"))
_geo("jacobians_hex", "hexahedron",
     "ufl.SpatialCoordinate(mesh)[2] * ufl.JacobianInverse(mesh)[0, 1] * ufl.JacobianDeterminant(mesh) * f * v",
     "ufl.dx", tags=("kern", "geo", "slow"))

# the two forms of two_forms_tri in the other list order (one of the two orders differs from
# any canonical order a JIT might sort them into)
_add(
    Request(
        "two_forms_tri_rev",
        "forms",
        POOL["two_forms_tri"].stmts[:-1] + ["objs = [L, a]"],
        tags=("tiny", "multi-form"),
    )
)


# ---- additions after the fifth round of seeded changes ----------------------------------------
# vertex-based geometric quantities on a manifold (triangles in 3D)
_add(
    Request(
        "cell_geometry_tri_manifold",
        "forms",
        [
            'mesh = ufl.Mesh(basix.ufl.element("Lagrange", "triangle", 1, shape=(3,)))',
            'el = basix.ufl.element("Lagrange", "triangle", 1)',
            "V = ufl.FunctionSpace(mesh, el)",
            "v = ufl.TestFunction(V)",
            "f = ufl.Coefficient(V)",
            "L = ufl.CellDiameter(mesh) * ufl.Circumradius(mesh) * ufl.MinCellEdgeLength(mesh) "
            "* ufl.MaxCellEdgeLength(mesh) * f * v * ufl.dx",
            "objs = [L]",
        ],
        tags=("kern", "geo"),
    )
)
_add(
    Request(
        "cell_geometry_quad_manifold",
        "forms",
        [
            'mesh = ufl.Mesh(basix.ufl.element("Lagrange", "quadrilateral", 1, shape=(3,)))',
            'el = basix.ufl.element("Lagrange", "quadrilateral", 1)',
            "V = ufl.FunctionSpace(mesh, el)",
            "v = ufl.TestFunction(V)",
            "L = ufl.CellDiameter(mesh) * ufl.MaxCellEdgeLength(mesh) * v * ufl.dx",
            "objs = [L]",
        ],
        tags=("kern", "geo"),
    )
)
# a bilinear form whose integral data has interior-facet integrals followed by further integrals
_add(
    Request(
        "two_dS_and_vertex_bilinear_tri",
        "forms",
        [
            _mesh("triangle"),
            'el = basix.ufl.element("Lagrange", "triangle", 1)',
            "V = ufl.FunctionSpace(mesh, el)",
            "u = ufl.TrialFunction(V)",
            "v = ufl.TestFunction(V)",
            "a = ufl.jump(u) * ufl.jump(v) * ufl.dS(1) + ufl.avg(u) * ufl.avg(v) * ufl.dS(2) "
            "+ u('+') * v('-') * ufl.dS + u * v * ufl.dP + u * v * ufl.dx + u * v * ufl.ds",
            "objs = [a]",
        ],
        tags=("kern", "facet", "interior", "vertex"),
    )
)
# a custom rule whose points carry round-off next to 0 and 1 (1 - 0.7 - 0.3 = 5.55e-17, -0.0)
_add(
    Request(
        "cquad_roundoff",
        "forms",
        [
            _mesh("triangle"),
            'el = basix.ufl.element("Lagrange", "triangle", 1)',
            "V = ufl.FunctionSpace(mesh, el)",
            "u = ufl.TrialFunction(V)",
            "v = ufl.TestFunction(V)",
            "qpts = np.array([[1 - 0.7 - 0.3, 0.5], [0.5, -0.0], [0.5, 0.5 - 1e-17], [1.0 / 3, 1 - 1e-16 - 2.0 / 3]])",
            "qwts = np.array([1.0, 1.0, 1.0, 1.0]) / 8.0",
            'a = ufl.inner(u, v) * ufl.dx(metadata={"quadrature_rule": "custom", '
            '"quadrature_points": qpts, "quadrature_weights": qwts})',
            "objs = [a]",
        ],
        tags=("family", "cquad", "npstr", "kern"),
    )
)
_add(
    Request(
        "qelem_roundoff",
        "forms",
        [
            _mesh("triangle"),
            "qpts = np.array([[1 - 0.7 - 0.3, 0.5], [0.5, -0.0], [0.25, 0.25]])",
            "qwts = np.array([1.0, 1.0, 1.0]) / 6.0",
            'qe = basix.ufl.quadrature_element("triangle", points=qpts, weights=qwts)',
            "Q = ufl.FunctionSpace(mesh, qe)",
            'V = ufl.FunctionSpace(mesh, basix.ufl.element("Lagrange", "triangle", 1))',
            "f = ufl.Coefficient(Q)",
            "v = ufl.TestFunction(V)",
            'L = f * v * ufl.dx(metadata={"quadrature_rule": "custom", '
            '"quadrature_points": qpts, "quadrature_weights": qwts})',
            "objs = [L]",
        ],
        tags=("family", "qelem", "npstr"),
    )
)
# option values that compare equal but are of another type (0 == 0.0 == False, 30 == 30.0)
for _lab, _opts in (("eps-int0", {"epsilon": 0}), ("eps-float0", {"epsilon": 0.0}),
                    ("verbosity-float", {"verbosity": 30.0}), ("verbosity-int", {"verbosity": 30}),
                    ("sumfact-0", {"sum_factorization": 0}), ("sumfact-False", {"sum_factorization": False})):
    _add(POOL["stiff_p2_triangle"].variant(f"@{_lab}", options=_opts, tags=("family", "nocli")))
# compiler flags that only look like warning switches
_add(POOL["stiff_p2_triangle"].variant("@Wp-define", jit_kwargs={"cffi_extra_compile_args": ["-Wp,-DFFCX_VERIF_X=1"]},
                                       tags=("family", "jitonly")))
_add(POOL["stiff_p2_triangle"].variant("@Wall", jit_kwargs={"cffi_extra_compile_args": ["-Wall"]},
                                       tags=("family", "jitonly")))
_add(POOL["stiff_p2_triangle"].variant("@Werror", jit_kwargs={"cffi_extra_compile_args": ["-Werror"]},
                                       tags=("family", "jitonly")))


# ---- widened along the hints of round 6 (before its changes were known) -------------------------
# many interchangeable terminals on one space: any ordering by id(), address or a tying key shows
_add(
    Request(
        "many_ties_tri",
        "forms",
        [
            _mesh("triangle"),
            'el = basix.ufl.element("Lagrange", "triangle", 1)',
            "V = ufl.FunctionSpace(mesh, el)",
            "u = ufl.TrialFunction(V)",
            "v = ufl.TestFunction(V)",
            "cs = [ufl.Coefficient(V) for _ in range(6)]",
            "ks = [ufl.Constant(mesh) for _ in range(3)]",
            "a = sum(c * u * v for c in cs) * ufl.dx + sum(k * c.dx(0) * u * v for k, c in zip(ks, cs)) * ufl.dx "
            "+ sum(cs[i] * cs[5 - i] * u * v for i in range(3)) * ufl.ds + ks[0] * ks[1] * ks[2] * u * v * ufl.dx(7)",
            "objs = [a]",
        ],
        tags=("kern", "multi-el"),
    )
)
# sum factorisation with a coefficient, real and complex
_add(
    Request(
        "tp_mass_coeff_q2_quad",
        "forms",
        POOL["tp_stiff_q2_quad"].stmts[:-2] + [
            "f = ufl.Coefficient(V)",
            "a = f * ufl.inner(u, v) * ufl.dx + ufl.inner(ufl.grad(u), ufl.grad(v)) * ufl.dx",
            "objs = [a]",
        ],
        tags=("kern", "family"),
    )
)
_add(POOL["tp_mass_coeff_q2_quad"].variant("@sumfact", options={"sum_factorization": True},
                                           tags=("family", "kern")))
_add(POOL["tp_mass_coeff_q2_quad"].variant("@sumfact-complex", options={"sum_factorization": True,
                                                                        "scalar_type": "complex128"},
                                           tags=("family", "kern")))
_add(Combined("combo:expr_facet_tri+expr_p1_tri_2pts", ["expr_facet_tri", "expr_p1_tri_2pts"]))


# ---- additions after the sixth round of seeded changes ----------------------------------------
# three expressions, two point arrays, the third expression reusing one of the two array OBJECTS
def _expr_triple(name, third):
    return _add(
        Request(
            name,
            "expressions",
            [
                _mesh("triangle"),
                'el = basix.ufl.element("Lagrange", "triangle", 1)',
                "V = ufl.FunctionSpace(mesh, el)",
                "f = ufl.Coefficient(V)",
                "P = np.array([[0.25, 0.25], [0.5, 0.125]], dtype=np.float64)",
                "Q = np.array([[0.1, 0.7], [0.3, 0.3]], dtype=np.float64)",
                f"objs = [(f, P), (f * f, Q), (ufl.sin(f), {third})]",
            ],
            tags=("family", "points", "identfam"),
        )
    )


_expr_triple("expr_triple_PQP", "P")
_expr_triple("expr_triple_PQQ", "Q")


# two coefficients of one space in non-interchangeable roles, roles swapped
def _expr_roles(name, body):
    return _add(
        Request(
            name,
            "expressions",
            [
                _mesh("triangle"),
                'el = basix.ufl.element("Lagrange", "triangle", 2)',
                "V = ufl.FunctionSpace(mesh, el)",
                "f = ufl.Coefficient(V)",
                "g = ufl.Coefficient(V)",
                "k = ufl.Constant(mesh)",
                "m = ufl.Constant(mesh)",
                "pts = np.array([[0.25, 0.25], [0.5, 0.125]], dtype=np.float64)",
                f"objs = [({body}, pts)]",
            ],
            tags=("family", "exprfam"),
        )
    )


_expr_roles("expr_roles_fg", "f.dx(0) + g + k * f + m")
_expr_roles("expr_roles_gf", "g.dx(0) + f + m * g + k")


# compiler and flags chosen through the environment (setuptools honours CC / CFLAGS / CPPFLAGS /
# LDFLAGS): they change the build command just like cffi_extra_compile_args do
for _lab, _env in (("envCFLAGS", {"CFLAGS": "-O1 -DFFCX_VERIF_ENV=1"}), ("envCC", {"CC": "gcc -DFFCX_VERIF_CC=1"}),
                   ("envCPPFLAGS", {"CPPFLAGS": "-DFFCX_VERIF_CPP=1"})):
    _r = _add(POOL["stiff_p2_triangle"].variant(f"@{_lab}", tags=("family", "jitonly", "goldonly")))
    _r.jit_env = dict(_env)


# ---- additions after the seventh round of seeded changes ---------------------------------------
# a request FFCx accepts in analysis and IR and rejects in code generation (stage 3), after the
# geometry of its mesh has been visited
_add(
    _lagrange_form(
        "bad_bessel_stage3", "triangle", 1,
        "ufl.bessel_I(1, f) * ufl.inner(ufl.grad(u), ufl.grad(v)) + ufl.CellVolume(mesh) * u * v",
        extra=["f = ufl.Coefficient(V)"], tags=("bad",),
    )
)
# the custom rule of cquad_base with weights that differ from it in the last place only
_add(
    Request(
        "cquad_weights_ulp",
        "forms",
        [s.replace("/ 6.0", "/ 6.0 * (1 + 4e-16)") if s.startswith("qwts") else s
         for s in POOL["cquad_base"].stmts],
        tags=("family", "cquad", "npstr"),
    )
)
