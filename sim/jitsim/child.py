"""jitsim child: a simulated OS process running the real ffcx JIT against a real directory.

Forked from the simulator's zygote (ffcx/ufl/basix/cffi imported, request objects built).
Installs the seams, then serves commands from the parent:

  {"cmd": "request", "req": name, "timeout": n, "kwargs": {...}}  -> runs compile_forms /
        compile_expressions, reporting every seam, then {"ev": "outcome", ...}
  {"cmd": "exit"}

At every seam it writes one message and blocks until the parent answers:
  {"act": "go", "now": t, ...}            perform the operation
  {"act": "raise", "exc": "OSError", "errno": n}   the operation fails instead
  {"act": "interrupt"}                    KeyboardInterrupt is raised at this point
  (or it is SIGKILLed while blocked)
"""

from __future__ import annotations

import builtins
import errno as _errno
import hashlib
import io
import json
import logging
import os
import signal
import subprocess
import sys
import time
import traceback

import numpy as np

MODPREFIX = "libffcx_"


class Chan:
    def __init__(self, rfd, wfd):
        self.r = os.fdopen(rfd, "rb", buffering=0)
        self.wfd = wfd
        self.now = 0.0
        self.nseams = 0
        self.buf = b""

    def send(self, msg):
        data = (json.dumps(msg) + "\n").encode()
        while data:
            n = os.write(self.wfd, data)
            data = data[n:]

    def recv(self):
        while b"\n" not in self.buf:
            chunk = self.r.read(65536)
            if not chunk:
                os._exit(17)  # parent went away
            self.buf += chunk
        line, self.buf = self.buf.split(b"\n", 1)
        return json.loads(line)

    bypass = False  # decoy phase: the request runs outside the simulation

    def seam(self, kind, **info):
        if self.bypass:
            return {"act": "go"}
        self.nseams += 1
        msg = {"ev": "seam", "kind": kind}
        msg.update(info)
        self.send(msg)
        ans = self.recv()
        self.now = ans.get("now", self.now)
        act = ans["act"]
        if act == "go":
            return ans
        if act == "raise":
            exc = {"OSError": OSError, "PermissionError": PermissionError,
                   "RuntimeError": RuntimeError, "ImportError": ImportError}[ans.get("exc", "OSError")]
            if issubclass(exc, OSError):
                raise exc(ans.get("errno", _errno.EIO), os.strerror(ans.get("errno", _errno.EIO)),
                          info.get("path"))
            raise exc("injected failure (jitsim)")
        if act == "interrupt":
            if ans.get("exc") == "SystemExit":
                raise SystemExit(3)
            raise KeyboardInterrupt()
        if act == "selfkill":
            os.kill(os.getpid(), signal.SIGKILL)
        raise RuntimeError(f"unknown action {ans}")


def role_of(base):
    """Classify a cache-directory file name."""
    if base.endswith(".c.cached"):
        return "marker"
    if base.endswith(".c.failed"):
        return "failed"
    if ".c.~" in base:
        return "tmp"
    if base.endswith(".c"):
        return "lock"
    if base.endswith(".o"):
        return "obj"
    if base.endswith(".so"):
        return "so"
    return "other"


def module_of(base):
    return base.split(".")[0]


class FileProxy:
    """Write-mode file under the cache dir: write and close are seams."""

    def __init__(self, f, chan, base):
        self._f, self._chan, self._base = f, chan, base
        self._closed = False

    def write(self, data):
        ans = self._chan.seam("write", file=self._base, role=role_of(self._base), n=len(data))
        k = ans.get("partial")
        if k is not None:
            self._f.write(data[: int(k)])
            self._f.flush()
            os.kill(os.getpid(), signal.SIGKILL)
        return self._f.write(data)

    def close(self):
        if not self._closed:
            self._closed = True
            try:
                self._chan.seam("close", file=self._base, role=role_of(self._base))
            finally:
                self._f.close()

    def __enter__(self):
        return self

    def __exit__(self, *a):
        self.close()
        return False

    def __getattr__(self, name):
        return getattr(self._f, name)


def install_seams(chan, cache_dir, private_tmp):
    cache_real = os.path.realpath(cache_dir)
    real_open = builtins.open
    real_stat, real_replace, real_rename = os.stat, os.replace, os.rename
    real_mkdir, real_unlink, real_chdir = os.mkdir, os.unlink, os.chdir
    real_os_open, real_utime, real_link, real_symlink = os.open, os.utime, os.link, os.symlink
    real_rmdir, real_lstat = os.rmdir, os.lstat
    real_check_call = subprocess.check_call

    def _exists(x):
        try:
            real_stat(x)
            return True
        except OSError:
            return False

    def watched(path):
        """-> basename if path is a JIT artefact in the cache dir, else None."""
        try:
            p = os.fspath(path)
        except TypeError:
            return None
        if isinstance(p, bytes):
            p = p.decode()
        base = os.path.basename(p)
        if not base.startswith(MODPREFIX):
            return None
        d = os.path.realpath(os.path.dirname(os.path.abspath(p)))
        return base if d == cache_real else None

    def sim_open(file, mode="r", *a, **k):
        base = watched(file) if not isinstance(file, int) else None
        if base is None:
            return real_open(file, mode, *a, **k)
        chan.seam("open", file=base, role=role_of(base), mode=mode)
        f = real_open(file, mode, *a, **k)
        if any(c in mode for c in "wxa+"):
            return FileProxy(f, chan, base)
        return f

    def _virtual_times(st, ans):
        """File times are part of the simulated clock: the parent knows at which virtual time
        each artefact was last written; real mtimes would be meaningless next to time.time()."""
        vt = ans.get("mtime")
        if vt is None:
            return st
        t = 1_700_000_000.0 + float(vt)
        f = list(st)
        f[7] = f[8] = f[9] = int(t)
        extra = {"st_atime": t, "st_mtime": t, "st_ctime": t, "st_atime_ns": int(t * 1e9),
                 "st_mtime_ns": int(t * 1e9), "st_ctime_ns": int(t * 1e9)}
        for name in ("st_blksize", "st_blocks", "st_rdev"):
            if hasattr(st, name):
                extra[name] = getattr(st, name)
        return os.stat_result(f, extra)

    fresh = cache_real.endswith(os.path.join("fresh", "cache"))

    def cache_dir_part(path):
        """-> label if path is the cache directory or one of its not-yet-existing ancestors."""
        if not fresh:
            return None  # the directory exists from the start: nothing to race for
        try:
            pth = os.fspath(path)
            if isinstance(pth, bytes):
                pth = pth.decode()
            if "fresh" not in pth and os.path.isabs(pth):
                return None
            pth = os.path.realpath(os.path.abspath(pth))
        except TypeError:
            return None
        if pth == cache_real:
            return "$CACHE"
        if cache_real.startswith(pth + os.sep) and os.sep + "fresh" in pth[len(os.path.dirname(pth)):] + os.sep:
            return "$CACHE/.."
        return None

    def sim_stat(path, *a, **k):
        if not isinstance(path, int):
            lab = cache_dir_part(path)
            if lab is not None:
                chan.seam("stat", file=lab, role="dir")
                return real_stat(path, *a, **k)
        base = watched(path) if not isinstance(path, int) else None
        if base is not None and role_of(base) in ("marker", "lock", "failed"):
            ans = chan.seam("stat", file=base, role=role_of(base))
            return _virtual_times(real_stat(path, *a, **k), ans)
        return real_stat(path, *a, **k)

    def sim_lstat(path, *a, **k):
        base = watched(path) if not isinstance(path, int) else None
        if base is not None and role_of(base) in ("marker", "lock", "failed"):
            ans = chan.seam("stat", file=base, role=role_of(base))
            return _virtual_times(real_lstat(path, *a, **k), ans)
        return real_lstat(path, *a, **k)

    def sim_os_open(path, flags, mode=0o777, *a, **k):
        """Low-level open of an artefact (pathlib's touch, O_EXCL locks): reported like open()
        with the equivalent mode letter; the creation is atomic at this seam."""
        base = watched(path) if not isinstance(path, int) else None
        if base is None or role_of(base) not in ("marker", "lock", "failed"):
            return real_os_open(path, flags, mode, *a, **k)
        if flags & os.O_CREAT:
            letter = "x" if flags & os.O_EXCL else ("w" if flags & os.O_TRUNC else "a")
        else:
            letter = "r" if (flags & 3) == os.O_RDONLY else "r+"
        chan.seam("open", file=base, role=role_of(base), mode=letter, lowlevel=True)
        fd = real_os_open(path, flags, mode, *a, **k)
        if role_of(base) == "marker" and flags & os.O_CREAT:
            # the parent's ghost marker goes empty -> written at close; os.close of a raw fd is
            # not intercepted, so report the close right away
            chan.seam("close", file=base, role="marker")
        return fd

    def sim_utime(path, *a, **k):
        base = watched(path) if not isinstance(path, int) else None
        if base is not None and role_of(base) in ("marker", "lock", "failed"):
            chan.seam("utime", file=base, role=role_of(base))
        return real_utime(path, *a, **k)

    def sim_link(src, dst, *a, **k):
        b1, b2 = watched(src), watched(dst)
        if b2 and role_of(b2) in ("marker", "lock", "failed"):
            # link()/symlink() onto a lock or marker name creates it exclusively
            chan.seam("open", file=b2, role=role_of(b2), mode="x", lowlevel=True, via="link")
            r = real_link(src, dst, *a, **k)
            if role_of(b2) == "marker":
                chan.seam("close", file=b2, role="marker")
            return r
        return real_link(src, dst, *a, **k)

    def sim_symlink(src, dst, *a, **k):
        b2 = watched(dst)
        if b2 and role_of(b2) in ("marker", "lock", "failed"):
            chan.seam("open", file=b2, role=role_of(b2), mode="x", lowlevel=True, via="symlink")
            r = real_symlink(src, dst, *a, **k)
            if role_of(b2) == "marker":
                chan.seam("close", file=b2, role="marker")
            return r
        return real_symlink(src, dst, *a, **k)

    def sim_mkdir(path, *a, **k):
        lab = cache_dir_part(path)
        if lab is not None:
            chan.seam("mkdir", file=lab, role="dir")
            return real_mkdir(path, *a, **k)
        base = watched(path)
        if base and role_of(base) in ("marker", "lock", "failed"):
            chan.seam("open", file=base, role=role_of(base), mode="x", lowlevel=True, via="mkdir")
            r = real_mkdir(path, *a, **k)
            if role_of(base) == "marker":
                chan.seam("close", file=base, role="marker")
            return r
        return real_mkdir(path, *a, **k)

    def sim_rmdir(path, *a, **k):
        base = watched(path)
        if base:
            chan.seam("unlink", file=base, role=role_of(base))
        return real_rmdir(path, *a, **k)

    def sim_replace(src, dst, *a, **k):
        b1, b2 = watched(src), watched(dst)
        if b1 or b2:
            chan.seam("replace", file=b1 or str(src), role=role_of(b1 or ""), dst=b2 or str(dst),
                      dstrole=role_of(b2 or ""))
        return real_replace(src, dst, *a, **k)

    def sim_rename(src, dst, *a, **k):
        b1, b2 = watched(src), watched(dst)
        if b1 or b2:
            chan.seam("rename", file=b1 or str(src), role=role_of(b1 or ""), dst=b2 or str(dst),
                      dstrole=role_of(b2 or ""))
        return real_rename(src, dst, *a, **k)

    def sim_unlink(path, *a, **k):
        base = watched(path)
        if base:
            chan.seam("unlink", file=base, role=role_of(base))
        return real_unlink(path, *a, **k)

    def sim_chdir(path):
        if os.path.realpath(os.fspath(path)) == cache_real:
            chan.seam("chdir", file="$CACHE", role="dir")
        return real_chdir(path)

    def sim_sleep(s):
        chan.seam("sleep", s=float(s))

    def sim_time():
        return 1_700_000_000.0 + chan.now

    def sim_check_call(cmd, *a, **k):
        cmd = list(cmd)
        if chan.bypass or not cmd or not any(MODPREFIX in str(x) for x in cmd):
            return real_check_call(cmd, *a, **k)
        is_compile = "-c" in cmd
        out = cmd[cmd.index("-o") + 1]
        base = os.path.basename(out)
        kind = "compile" if is_compile else "link"
        ans = chan.seam("spawn-" + kind, file=base, role=role_of(base), module=module_of(base))
        fail = ans.get("fail")
        real_cmd = list(cmd)
        if fail == "cc":
            real_cmd += ["-include", "/nonexistent/jitsim-injected-failure.h"]
            return real_check_call(real_cmd, *a, **k)
        if fail == "ld":
            real_cmd += ["-l:jitsim_injected_missing_library"]
            return real_check_call(real_cmd, *a, **k)
        # the real compiler, memoised by content: same source + same flags -> same bytes
        tmp_out = os.path.join(private_tmp, base)
        memo_dir = ans.get("memo")
        key = None
        if memo_dir:
            h = hashlib.sha256()
            for x in cmd:
                x = str(x)
                if x.endswith((".c", ".o")) and _exists(x) and x != out:
                    with real_open(x, "rb") as f:
                        h.update(f.read())
                h.update(b"\0" + os.path.basename(x).encode())
            key = os.path.join(memo_dir, h.hexdigest() + ("." + kind))
        if key and _exists(key):
            with real_open(key, "rb") as f:
                data = f.read()
        else:
            run_cmd = list(cmd)
            run_cmd[run_cmd.index("-o") + 1] = tmp_out
            real_check_call(run_cmd, *a, **k)
            with real_open(tmp_out, "rb") as f:
                data = f.read()
            os.unlink(tmp_out)
            if key:
                t = key + f".{os.getpid()}"
                with real_open(t, "wb") as f:
                    f.write(data)
                real_replace(t, key)
        # the output file is written non-atomically, like ld does: first a torn prefix...
        torn = int(ans.get("torn", len(data) // 2))
        try:
            real_unlink(out)
        except OSError:
            pass
        with real_open(out, "wb") as f:
            f.write(data[:torn])
        ans2 = chan.seam("spawn-" + kind + "-end", file=base, role=role_of(base), module=module_of(base),
                         size=len(data))
        if ans2.get("truncate") is not None:
            with real_open(out, "wb") as f:
                f.write(data[: int(ans2["truncate"])])
            os.kill(os.getpid(), signal.SIGKILL)
        # ...then the rest
        with real_open(out, "ab") as f:
            f.write(data[torn:])
        if not is_compile:
            os.chmod(out, 0o755)
        return 0

    builtins.open = sim_open
    io.open = sim_open
    os.stat = sim_stat
    os.lstat = sim_lstat
    os.open = sim_os_open
    os.utime = sim_utime
    os.link = sim_link
    os.symlink = sim_symlink
    os.mkdir = sim_mkdir
    os.rmdir = sim_rmdir
    os.replace = sim_replace
    os.rename = sim_rename
    os.unlink = sim_unlink
    os.remove = sim_unlink
    os.chdir = sim_chdir
    time.sleep = sim_sleep
    time.time = sim_time
    subprocess.check_call = sim_check_call

    import importlib.machinery as M

    real_create = M.ExtensionFileLoader.create_module

    def create_module(self, spec):
        base = os.path.basename(spec.origin)
        if not base.startswith(MODPREFIX):
            return real_create(self, spec)
        try:
            size = real_stat(spec.origin).st_size
        except OSError:
            size = -1
        chan.seam("dlopen", file=base, role=role_of(base), module=module_of(base), size=size)
        return real_create(self, spec)

    M.ExtensionFileLoader.create_module = create_module

    import ffcx.compiler

    real_codegen = ffcx.compiler.compile_ufl_objects

    def codegen(*a, **k):
        chan.seam("codegen", module=str(k.get("namespace")))
        return real_codegen(*a, **k)

    ffcx.compiler.compile_ufl_objects = codegen


def kernel_digest(kind, objs, module, scalar="float64"):
    """Call every kernel of the returned objects on fixed inputs; digest of the results."""
    ffi = module.ffi
    h = hashlib.sha256()
    rng = np.random.RandomState(12345)
    w = np.ascontiguousarray(1.0 + rng.rand(256))
    c = np.ascontiguousarray(0.5 + rng.rand(64))
    coords = np.array([0.0, 0.0, 0.0, 1.0, 0.1, 0.0, 0.2, 0.9, 0.0, 0.1, 0.2, 1.1] * 4, dtype=np.float64)
    ent = np.zeros(4, dtype=np.intc)
    perm = np.zeros(4, dtype=np.uint8)

    def call(fn):
        A = np.zeros(1024, dtype=np.float64)
        fn(ffi.cast("double *", A.ctypes.data), ffi.cast("double *", w.ctypes.data),
           ffi.cast("double *", c.ctypes.data), ffi.cast("double *", coords.ctypes.data),
           ffi.cast("int *", ent.ctypes.data), ffi.cast("uint8_t *", perm.ctypes.data), ffi.NULL)
        h.update(A.tobytes())

    for o in objs:
        if kind == "forms":
            total = o.form_integral_offsets[5]  # 5 integral types + 1
            for j in range(total):
                call(o.form_integrals[j].tabulate_tensor_float64)
        else:
            call(o.tabulate_tensor_float64)
    return h.hexdigest()[:24]


class Sentinel(logging.Handler):
    def emit(self, record):
        pass


def child_main(rfd, wfd, cache_dir, private_tmp, pool):
    """pool: name -> (Request, objs)."""
    chan = Chan(rfd, wfd)
    root = logging.getLogger()
    root.addHandler(Sentinel())
    # the application has its own stdout object (a notebook, a test runner, a tee): restoring
    # "the" stdout must mean restoring this object, not sys.__stdout__
    sys.stdout = io.TextIOWrapper(io.FileIO(os.open(os.devnull, os.O_WRONLY), "w"), write_through=True)
    sys.stderr = io.TextIOWrapper(io.FileIO(os.dup(2), "w"), write_through=True)
    install_seams(chan, cache_dir, private_tmp)
    import ffcx.codegeneration.jit as jit

    chan.send({"ev": "ready", "pid": os.getpid()})
    kept = []
    while True:
        cmd = chan.recv()
        if cmd["cmd"] == "exit":
            os._exit(0)
        if cmd["cmd"] == "decoy":
            # an earlier request of this process, outside the simulation, that used the SAME
            # spelling of the cache directory while it still meant another (private) directory
            chan.bypass = True
            try:
                req, objs = pool[cmd["req"]]
                fn = jit.compile_forms if req.kind == "forms" else jit.compile_expressions
                if cmd.get("chdir_before"):
                    os.chdir(cmd["chdir_before"])
                try:
                    fn(list(objs), options=dict(req.options), cache_dir=cmd["cache_arg"], timeout=1,
                       **dict(req.jit_kwargs))
                    ok = "returned"
                except BaseException as e:
                    ok = "raised " + type(e).__name__
                if cmd.get("chdir_after"):
                    os.chdir(cmd["chdir_after"])
            finally:
                chan.bypass = False
            chan.send({"ev": "decoy-done", "result": ok})
            continue
        chan.now = cmd.get("now", chan.now)
        if cmd.get("bare_root"):
            # a plain script: nobody configured logging, the root logger has no handler at all
            root.handlers.clear()
        req, objs = pool[cmd["req"]]
        handlers_before = list(root.handlers)
        stdout_before = sys.stdout
        stderr_before = sys.stderr
        cwd_before = os.getcwd()
        environ_before = dict(os.environ)
        root_level_before = root.level
        import warnings as _w
        filters_before = list(_w.filters)
        nfds_before = len(os.listdir("/proc/self/fd"))
        ffcx_logger = logging.getLogger("ffcx")
        ffcx_handlers_before = list(ffcx_logger.handlers)
        disable_before = logging.root.manager.disable
        jitmods_before = sorted(k for k in sys.modules if k.startswith(MODPREFIX))
        chan.nseams = 0
        out = {"ev": "outcome", "req": cmd["req"]}
        try:
            fn = jit.compile_forms if req.kind == "forms" else jit.compile_expressions
            kwargs = dict(req.jit_kwargs)
            kwargs.update(cmd.get("kwargs") or {})
            res_objs, module, code = fn(list(objs), options=dict(req.options),
                                        cache_dir=cmd.get("cache_arg") or cache_dir,
                                        timeout=cmd["timeout"], **kwargs)
            out["result"] = "returned"
            out["built"] = code[0] is not None
            out["module"] = module.__name__
            try:
                out["digest"] = kernel_digest(req.kind, res_objs, module)
            except BaseException as e:
                out["digest"] = "kernel-call-failed:" + type(e).__name__
        except BaseException as e:
            out["result"] = "raised"
            out["exc"] = type(e).__name__
            chain = []
            x = e
            while x is not None and len(chain) < 6:
                chain.append(type(x).__name__)
                x = x.__cause__ or x.__context__
            out["exc_chain"] = chain
            out["msg"] = str(e)[:300]
            out["tb"] = traceback.format_exc()[-1500:]
        out["handlers_same"] = (len(root.handlers) == len(handlers_before)
                                and all(a is b for a, b in zip(root.handlers, handlers_before)))
        out["stdout_same"] = sys.stdout is stdout_before
        out["cwd_same"] = os.getcwd() == cwd_before
        out["stderr_same"] = sys.stderr is stderr_before
        out["environ_same"] = dict(os.environ) == environ_before
        out["root_level_same"] = root.level == root_level_before
        out["warnings_filters_same"] = list(_w.filters) == filters_before
        out["fd_delta"] = len(os.listdir("/proc/self/fd")) - nfds_before
        out["ffcx_handlers_same"] = list(ffcx_logger.handlers) == ffcx_handlers_before
        out["logging_disable_same"] = logging.root.manager.disable == disable_before
        out["new_jit_sys_modules"] = [k for k in sys.modules if k.startswith(MODPREFIX)
                                      and k not in jitmods_before]
        # objects returned by an EARLIER request of this process must stay usable whatever
        # happened since (garbage collection, a failed build, the same module loaded again)
        if kept:
            import gc as _gc

            _gc.collect()
            k_kind, k_objs, k_mod, k_digest = kept[0]
            try:
                out["earlier_digest_same"] = kernel_digest(k_kind, k_objs, k_mod) == k_digest
            except BaseException as e:
                out["earlier_digest_same"] = False
                out["earlier_digest_error"] = type(e).__name__
        if out.get("result") == "returned" and not str(out.get("digest", "")).startswith("kernel-call-failed"):
            kept.append((req.kind, res_objs, module, out["digest"]))
        out["nseams"] = chan.nseams
        # leave the process as the next request of the same process would find it
        chan.send(out)
