"""jitsim parent: the simulator.  Single-threaded; owns the PRNG, the virtual clock, the ghost
state and the oracle.  Simulated processes are forked children (sim/jitsim/child.py) that
block at every seam; at most one child is unblocked at any time, so the interleaving is
exactly this module's sequence of grants.
"""

from __future__ import annotations

import errno
import json
import math
import os
import re
import select
import shutil
import signal
import sys
import time as _time

from sim import core
from sim import requests as R

TINY = ["mass_p1_interval", "laplace_p1_tri_coeff", "expr_p1_tri_2pts", "two_forms_tri", "two_forms_tri_rev"]
JIT_KW = {"cffi_extra_compile_args": ["-O0"]}
DISK_FAULTS = ("marker-enospc", "lock-eacces")
_PID_RE = re.compile(r"\.~\d+")

_POOL = None


def pool():
    """Zygote state: request objects built once per worker, inherited by every fork."""
    global _POOL
    if _POOL is None:
        core.use_repo()
        import ffcx.codegeneration.jit  # noqa: F401  (pre-import everything the children need)
        import ffcx.compiler  # noqa: F401
        import _cffi_backend  # noqa: F401
        import setuptools  # noqa: F401
        from cffi import recompiler  # noqa: F401

        _POOL = {}
        for name in TINY:
            req = R.get(name).variant("", jit_kwargs=JIT_KW)
            objs, _ = req.build()
            _POOL[name] = (req, objs)
        # warm-up: one plain build of an unrelated form inside the zygote, so that every lazily
        # imported module (setuptools commands, cffi recompiler, importlib machinery) is already
        # loaded when children fork; it costs each child thousands of page faults otherwise
        import logging
        import tempfile

        wreq = R.get("stiff_p1_interval").variant("", jit_kwargs=JIT_KW)
        wobjs, _ = wreq.build()
        d = tempfile.mkdtemp(prefix="jitwarm-", dir=core.scratch_root())
        handlers = list(logging.getLogger().handlers)
        try:
            ffcx.codegeneration.jit.compile_forms(list(wobjs), options={}, cache_dir=d, **JIT_KW)
        finally:
            logging.getLogger().handlers = handlers
            shutil.rmtree(d, ignore_errors=True)
    return _POOL


class Violation(Exception):
    pass


class Proc:
    def __init__(self, idx, requests, arrive, late=False, name=None, after=None):
        self.after = after  # {"event": "<kind>:<role>", "delay": s}: arrives that long after the
        # first time anybody passes a seam of that class (targets the window behind a state change)
        self.idx = idx
        self.name = idx if name is None else name
        self.rfd = self.wfd = None
        self.requests = list(requests)
        self.arrive = arrive
        self.late = late
        self.pid = None
        self.state = "new"  # new | idle | pending | done | killed
        self.ready = arrive if after is None else math.inf
        self.pending = None
        self.cur = None
        self.req_index = -1
        self.outcomes = []
        self.buf = b""
        self.faulted = set()
        self.decoy_done = False
        self.fixed_cache_arg = None

    def live(self):
        return self.state in ("idle", "pending", "new")


class Sim:
    def __init__(self, scn, golden, memo_dir, wall_cap=600.0):
        self.scn = scn
        self.golden = golden  # req -> {"module", "digest", "seams"}
        self.memo_dir = memo_dir
        self.wall_cap = wall_cap
        self.now = 0.0
        self.log = core.EventLog()
        self.viol = []  # (key, detail)
        self.stats = {}
        self.procs = []
        self.faults = [dict(f, fired=False) for f in scn.get("faults", [])]
        self.stretch = [dict(s, used=False) for s in scn.get("stretch", [])]
        self.ghost = {}
        self.mtime = {}  # artefact base name -> virtual time of its last modification
        self.rng_tie = core.rng_for(scn["seed"], "tie")
        self.cache_root = core.scratch_dir("jitcache-")
        self.cache = self.cache_root
        if scn.get("fresh_cache_dir") and not scn.get("pre"):
            # first run / cleaned cache: the directory (two levels of it) does not exist yet, the
            # processes create it themselves - creating it is a seam like any other
            self.cache = os.path.join(self.cache_root, "fresh", "cache")
        self.tmp = core.scratch_dir("jittmp-")
        # a stall is no fault; a failing dlopen in one process (load-fail) touches no build and no
        # file, so everything the others are promised still holds
        self.fault_free = not [f for f in self.faults if f["kind"] not in ("stall", "load-fail")] and not any(
            p["kind"] not in ("warm", "stale-failed", "warm+stale-failed", "stale-failed+complete-so")
            for p in scn.get("pre", []))
        self.keep_cache = False
        self.mode = scn.get("mode", "C14")
        self.sim_seconds = 0.0

    # ------------------------------------------------------------------ helpers
    def bump(self, k, n=1):
        self.stats[k] = self.stats.get(k, 0) + n

    def violate(self, key, detail):
        self.viol.append((key, detail))
        self.log.add("VIOLATION", key, detail)

    def g(self, module):
        if module not in self.ghost:
            self.ghost[module] = dict(
                holder=None, build="none", marker="absent", compile_spawns=0, link_spawns=0,
                codegen_calls=0, builders=[], so_state="absent", so_size=None, holder_end="none",
                pre_orphan=False, pre_failed=False, disk_fault=False, compilers=[], warm=False)
        return self.ghost[module]

    def path(self, base):
        return os.path.join(self.cache, base)

    def norm(self, s):
        return _PID_RE.sub(".~P", s) if isinstance(s, str) else s

    # ------------------------------------------------------------------ processes
    def spawn(self, p):
        c2p_r, c2p_w = os.pipe()
        p2c_r, p2c_w = os.pipe()
        sys.stdout.flush()
        sys.stderr.flush()
        pid = os.fork()
        if pid == 0:
            try:
                os.close(c2p_r)
                os.close(p2c_w)
                for q in self.procs:
                    for fd in (getattr(q, "rfd", None), getattr(q, "wfd", None)):
                        if fd is not None and q is not p:
                            try:
                                os.close(fd)
                            except OSError:
                                pass
                devnull = os.open(os.devnull, os.O_WRONLY)
                os.dup2(devnull, 1)
                if not os.environ.get("VERIF_JITSIM_DEBUG"):
                    os.dup2(devnull, 2)
                from sim.jitsim import child

                ptmp = os.path.join(self.tmp, f"p{p.idx}")
                os.makedirs(ptmp, exist_ok=True)
                child.child_main(p2c_r, c2p_w, self.cache, ptmp, pool())
            except BaseException:
                import traceback

                traceback.print_exc()
            finally:
                os._exit(99)
        os.close(c2p_w)
        os.close(p2c_r)
        p.pid, p.rfd, p.wfd = pid, c2p_r, p2c_w
        msg = self.recv(p)
        if not msg or msg.get("ev") != "ready":
            raise core.HarnessError(f"jitsim child did not start: {msg}")
        p.state = "idle"

    def send(self, p, msg):
        data = (json.dumps(msg) + "\n").encode()
        try:
            while data:
                n = os.write(p.wfd, data)
                data = data[n:]
        except BrokenPipeError:
            pass

    def recv(self, p):
        """Next message of p, or None if the process is gone."""
        deadline = _time.time() + self.wall_cap
        while b"\n" not in p.buf:
            left = deadline - _time.time()
            if left <= 0:
                self.kill(p, "wall")
                raise core.HarnessError(f"jitsim wall cap: process {p.idx} silent for {self.wall_cap}s")
            r, _, _ = select.select([p.rfd], [], [], min(left, 5.0))
            if not r:
                continue
            chunk = os.read(p.rfd, 65536)
            if not chunk:
                return None
            p.buf += chunk
        line, p.buf = p.buf.split(b"\n", 1)
        return json.loads(line)

    def reap(self, p):
        try:
            _, status = os.waitpid(p.pid, 0)
        except ChildProcessError:
            status = 0
        for fd in (p.rfd, p.wfd):
            try:
                os.close(fd)
            except OSError:
                pass
        p.rfd = p.wfd = None
        return status

    def kill(self, p, why):
        if p.state in ("done", "killed"):
            return
        try:
            os.kill(p.pid, signal.SIGKILL)
        except ProcessLookupError:
            pass
        self.reap(p)
        p.state = "killed"
        self.on_process_gone(p, why)

    def on_process_gone(self, p, why):
        self.log.add(round(self.now, 6), p.idx, "gone", why)
        if p.cur is not None:
            p.cur["end"] = "killed" if why != "interrupt" else "interrupted"
            p.outcomes.append({"req": p.cur["req"], "result": "killed", "why": why,
                               "role": p.cur.get("role")})
            m = p.cur["module"]
            gh = self.g(m)
            if gh["holder"] == p.idx:
                gh["holder_end"] = "killed"
                if gh["build"] == "building":
                    gh["build"] = "abandoned"
                self.bump("probe_builder_killed_with_lock_held")
            p.cur = None

    # ------------------------------------------------------------------ durations
    def draw(self, p, kind, msg, was_holder=False):
        rng = p.rng
        lo, hi = 1e-5, 1e-2
        if kind == "codegen":
            lo, hi = 1e-2, 1.0
        elif kind == "spawn-compile":
            lo, hi = 5e-2, 2.0
        elif kind == "spawn-link":
            lo, hi = 2e-2, 0.5
        elif kind == "dlopen":
            lo, hi = 1e-3, 2e-2
        elif kind == "outcome":
            lo, hi = 1e-3, 1e-1
        d = math.exp(rng.uniform(math.log(lo), math.log(hi)))
        cls = f"{kind}:{msg.get('role', '')}"
        for s in self.stretch:
            if s["used"] or s["after"] != cls:
                continue
            if s["proc"] == "holder":
                if not was_holder and not (p.cur and self.g(p.cur["module"])["holder"] == p.idx):
                    continue
            elif s["proc"] != p.name:
                continue
            s["used"] = True
            d = s["dur"]
            self.bump("stretch_applied")
        return d

    # ------------------------------------------------------------------ faults
    def match_fault(self, p, msg):
        kind = msg["kind"]
        cur = p.cur
        gh = self.g(cur["module"])
        is_holder = gh["holder"] == p.idx
        for f in self.faults:
            if f["fired"]:
                continue
            tgt = f["proc"]
            if tgt == "holder":
                if not is_holder:
                    continue
                count = cur["seams_since_lock"]
            else:
                if tgt != p.name or f.get("req_index", 0) != p.req_index:
                    continue
                count = cur["seams"]
            k = f["kind"]
            hit = False
            if k in ("kill", "interrupt", "stall"):
                hit = count == f["at"]
            elif k == "codegen-fail":
                hit = kind == "codegen"
            elif k == "cc-fail":
                hit = kind == "spawn-compile"
            elif k == "ld-fail":
                hit = kind == "spawn-link"
            elif k == "marker-enospc":
                hit = msg.get("role") == "marker" and kind == f.get("on", "open")
            elif k == "lock-eacces":
                hit = msg.get("role") == "lock" and kind == "open" and "x" in msg.get("mode", "")
            elif k == "load-fail":
                hit = kind == "dlopen"
            elif k == "kill-torn-link":
                hit = kind == "spawn-link-end"
            elif k == "kill-torn-obj":
                hit = kind == "spawn-compile-end"
            elif k == "torn-write-kill":
                hit = kind == "write" and msg.get("role") == f.get("role", "tmp")
            if hit:
                f["fired"] = True
                self.bump("fault_fired_" + k)
                return f
        return None

    # ------------------------------------------------------------------ the grant
    def grant(self, p):
        """Let p's pending operation happen (atomically), update ghost state, read p's next
        message and compute its ready time."""
        msg = p.pending
        self.now = max(self.now, p.ready)
        kind = msg["kind"]
        cur = p.cur
        cur["seams"] += 1
        m = cur["module"]
        gh = self.g(m)
        was_holder = gh["holder"] == p.idx
        if was_holder:
            cur["seams_since_lock"] += 1
        self.bump("seams")
        ans = {"act": "go", "now": self.now}
        fault = self.match_fault(p, msg)
        ev = [round(self.now, 6), p.idx, kind, self.norm(msg.get("file", msg.get("module", ""))),
              msg.get("mode", "")]
        stall = 0.0

        # step cap (bounded liveness is measured in the process's own steps, never wall clock)
        cap = 4 * self.golden[cur["req"]]["seams"] + 6 * cur["timeout"] + 40
        if cur["seams"] > cap:
            self.violate("H-LIVE", f"process {p.idx} request {cur['req']} exceeded {cap} steps "
                                   f"(timeout={cur['timeout']})")
            self.kill(p, "step-cap")
            return

        if fault:
            k = fault["kind"]
            p.faulted.add(k)
            cur["faulted"].add(k)
            ev.append("FAULT:" + k)
            if k in DISK_FAULTS:
                gh["disk_fault"] = True
            if k == "kill":
                self.log.add(*ev)
                self.kill(p, "kill")
                return
            if k == "interrupt":
                ans = {"act": "interrupt", "now": self.now, "exc": fault.get("exc", "KeyboardInterrupt")}
            elif k == "stall":
                stall = fault["dur"]
                cur["own_dur"] += stall
            elif k == "codegen-fail":
                ans = {"act": "raise", "exc": "RuntimeError", "now": self.now}
            elif k == "cc-fail":
                ans["fail"] = "cc"
            elif k == "ld-fail":
                ans["fail"] = "ld"
            elif k == "load-fail":
                ans = {"act": "raise", "exc": "ImportError", "now": self.now}
            elif k == "marker-enospc":
                ans = {"act": "raise", "exc": "OSError", "errno": errno.ENOSPC, "now": self.now}
            elif k == "lock-eacces":
                ans = {"act": "raise", "exc": "PermissionError", "errno": errno.EACCES, "now": self.now}
            elif k in ("kill-torn-link", "kill-torn-obj"):
                ans["truncate"] = int(msg.get("size", 0) * fault.get("frac", 0.5))
            elif k == "torn-write-kill":
                ans["partial"] = int(msg.get("n", 0) * fault.get("frac", 0.5))

        acts_normally = ans["act"] == "go" and "truncate" not in ans and "partial" not in ans
        role = msg.get("role")
        base = msg.get("file")

        # ---- ghost state + invariants on the operation that is about to happen ----------
        if kind == "open" and role == "lock":
            exists = os.path.exists(self.path(base))
            mode = msg.get("mode", "")
            if gh["build"] == "failed" and not exists and not gh["disk_fault"] and "x" in mode:
                # the last build failed and released its lock: this request must build afresh
                cur["expect_fresh"] = True
            if acts_normally and any(c in mode for c in "wxa") and not ("x" in mode and exists):
                # this process now owns the build
                other = gh["holder"]
                if other is not None and other != p.idx and self.procs[other].live() and \
                        self.procs[other].cur is not None and gh["build"] == "building":
                    self.violate("I-ME", f"process {p.idx} entered the build of {m} while process "
                                         f"{other} is still building it (open mode {mode!r})")
                if exists and gh["holder_end"] in ("none",) and gh["pre_orphan"]:
                    self.violate("I-ME", f"process {p.idx} took over a lock it did not create "
                                         f"(mode {mode!r})")
                gh["holder"] = p.idx
                gh["build"] = "building"
                gh["holder_end"] = "none"
                gh["builders"].append(p.idx)
                cur["role"] = "builder"
                cur["seams_since_lock"] = 0
                if cur["sleeps"] == 0:
                    cur["locked_first_try"] = True
            elif acts_normally and "x" in mode and exists:
                cur["role"] = "waiter"
                if gh["holder_end"] == "killed" or gh["pre_orphan"]:
                    self.bump("probe_request_hit_orphan_lock")
        elif kind == "stat" and role == "marker":
            exists = os.path.exists(self.path(base))
            if cur.get("role") == "waiter":
                cur["polls"] += 1
                if cur["first_poll"] is None:
                    cur["first_poll"] = self.now
                    cur["own_dur"] = 0.0
                cur["last_look_absent"] = not exists
                cur["last_look_t"] = self.now
                if gh["holder"] is not None and gh["build"] == "building":
                    self.bump("probe_waiter_polled_while_lock_held")
                    if gh["so_state"] == "complete" and gh["marker"] == "absent":
                        self.bump("probe_waiter_polled_between_link_and_marker")
                    if gh["so_state"] == "torn":
                        self.bump("probe_waiter_polled_while_so_torn")
                if gh["marker"] == "empty":
                    self.bump("probe_waiter_polled_with_marker_empty")
        elif kind == "sleep":
            cur["sleeps"] += 1
        elif kind == "codegen":
            gh["codegen_calls"] += 1
        elif kind == "spawn-compile":
            gh["compile_spawns"] += 1
            gh["compilers"].append(p.idx)
            if gh["holder"] != p.idx:
                self.violate("I-ME", f"process {p.idx} runs the C compiler for {m} without holding "
                                     f"its lock (holder={gh['holder']})")
            others = [q.idx for q in self.procs if q is not p and q.live() and q.cur is not None
                      and q.cur["module"] == m and q.cur.get("in_cc")]
            if others:
                self.violate("I-ME", f"two compilations of {m} overlap: processes {p.idx} and {others}")
            cur["in_cc"] = True
            if len({q.cur["module"] for q in self.procs if q.live() and q.cur is not None
                    and q.cur.get("role") == "builder"}) >= 2:
                self.bump("probe_two_modules_built_concurrently")
        elif kind == "spawn-link":
            gh["link_spawns"] += 1
            if acts_normally:
                if gh["so_state"] == "complete" or os.path.exists(self.path(base)):
                    self.bump("probe_stale_so_overwritten_by_rebuild")
                gh["so_state"] = "torn"
        elif kind == "spawn-link-end":
            if acts_normally:
                gh["so_state"] = "complete"
                gh["so_size"] = msg.get("size")
            else:
                gh["so_state"] = "torn"
            cur["in_cc"] = False
        elif kind == "open" and role == "marker":
            if acts_normally and not os.path.exists(self.path(base)):
                gh["marker"] = "empty"
                if gh["so_state"] != "complete":
                    self.violate("I-MARKER", f"ready marker for {m} created while the shared object is "
                                             f"{gh['so_state']}")
        elif kind == "close" and role == "marker":
            if gh["marker"] == "empty":
                gh["marker"] = "written"
        elif kind in ("replace", "rename") and role == "lock" and msg.get("dstrole") == "failed":
            if acts_normally:
                if gh["holder"] == p.idx:
                    gh["holder"] = None
                    gh["build"] = "failed"
                    gh["holder_end"] = "raised"
                gh["pre_orphan"] = False
                self.bump("probe_lock_renamed_to_failed")
        elif kind == "dlopen":
            size_now = msg.get("size")
            if gh["so_state"] != "complete" or (gh["so_size"] is not None and size_now != gh["so_size"]):
                self.violate("I-LOAD", f"process {p.idx} loads {self.norm(base)} while it is "
                                       f"{gh['so_state']} (size {size_now}, complete size {gh['so_size']})")
            if gh["marker"] == "absent" and not gh["warm"]:
                if gh["holder"] != p.idx:
                    self.violate("I-LOAD", f"process {p.idx} loads {m} before its ready marker exists")
            if cur.get("role") == "waiter" and gh["holder_end"] == "killed":
                self.bump("probe_waiter_loaded_after_builder_killed")
        self.log.add(*ev)

        # virtual file times: what a later stat() of this artefact reports
        if base is not None and ans["act"] == "go":
            if (kind == "open" and any(c in msg.get("mode", "") for c in "wxa+")
                    and not ("x" in msg.get("mode", "") and os.path.exists(self.path(base)))) \
                    or kind in ("write", "close", "utime", "spawn-compile-end", "spawn-link-end"):
                self.mtime[self.norm(base)] = self.now
            elif kind in ("replace", "rename") and msg.get("dst"):
                self.mtime[self.norm(msg["dst"])] = self.mtime.pop(self.norm(base), self.now)
            elif kind == "stat":
                ans["mtime"] = self.mtime.get(self.norm(base), -3600.0)

        cls = f"{kind}:{role or ''}"
        for q in self.procs:
            if q.after is not None and q.ready == math.inf and q.after["event"] == cls and q is not p:
                q.ready = self.now + float(q.after.get("delay", 0.0))
                self.bump("probe_arrival_triggered_by_event")

        # ---- let it happen --------------------------------------------------------------
        if kind in ("spawn-compile", "spawn-link") and acts_normally:
            ans["memo"] = self.memo_dir
            ans["torn_frac"] = 0.5
        self.send(p, ans)
        if ans["act"] == "interrupt":
            cur["interrupted"] = True
        nxt = self.recv(p)
        self.coarse_dir_time()
        if nxt is None:
            status = self.reap(p)
            expected = ("truncate" in ans) or ("partial" in ans)
            p.state = "killed"
            if expected:
                self.on_process_gone(p, "kill")
            else:
                sig = os.WTERMSIG(status) if os.WIFSIGNALED(status) else None
                self.on_process_gone(p, "crash")
                if sig is not None:
                    self.violate("H-CRASH", f"process {p.idx} died with signal {sig} at {kind} "
                                            f"{self.norm(base or '')}")
                else:
                    raise core.HarnessError(f"jitsim child {p.idx} exited unexpectedly, status {status}")
            return
        d = self.draw(p, kind, msg, was_holder) + stall
        if kind == "sleep":
            d = float(msg["s"]) + 1e-4
        else:
            cur["own_dur"] += d
        p.ready = self.now + d
        if nxt["ev"] == "outcome":
            self.on_outcome(p, nxt)
        else:
            p.pending = nxt

    def cache_arg(self, p):
        """How this process spells the (one) cache directory: absolute, through a symbolic link,
        or relative to its working directory."""
        if p.fixed_cache_arg:
            return p.fixed_cache_arg
        sp = (self.scn.get("cache_spelling") or {}).get(str(p.name))
        if self.cache != self.cache_root:
            sp = None  # a link to a directory that does not exist yet is a user error, not a schedule
        if sp == "symlink":
            link = os.path.join(self.tmp, f"cachelink-{p.idx}")
            if not os.path.islink(link):
                os.symlink(self.cache, link)
            return link
        if sp == "relative":
            return os.path.relpath(self.cache, os.getcwd())
        return None

    def coarse_dir_time(self):
        """Buggify knob: a file system with 2 s time stamps (ext3, NFS, FAT).  After every granted
        step the cache directory's mtime is what such a file system would show at this virtual
        time, so a new file can appear without the directory's mtime changing - which is what
        importlib's FileFinder keys its directory cache on."""
        g = self.scn.get("coarse_mtime")
        if g:
            g = 2 if g is True else int(g)
            t = 1_700_000_000 + g * int(self.now // g)
            try:
                os.utime(self.cache, (t, t))
            except OSError:
                pass

    # ------------------------------------------------------------------ outcomes
    def on_outcome(self, p, out):
        cur = p.cur
        m = cur["module"]
        gh = self.g(m)
        t = p.ready
        rec = {"req": cur["req"], "result": out["result"], "exc": out.get("exc"),
               "role": cur.get("role"), "timeout": cur["timeout"], "polls": cur["polls"],
               "sleeps": cur["sleeps"], "t": round(t, 6), "late": p.late,
               "built": out.get("built"), "faulted": sorted(cur["faulted"]),
               "interrupted": bool(cur.get("interrupted"))}
        p.outcomes.append(rec)
        self.log.add(round(t, 6), p.idx, "outcome", out["result"], out.get("exc") or "",
                     out.get("digest") or "", cur.get("role") or "")
        g = self.golden[cur["req"]]
        if out["result"] == "returned":
            if out.get("digest") != g["digest"]:
                self.violate("I-RES", f"process {p.idx} request {cur['req']} returned kernels with "
                                      f"digest {out.get('digest')} != golden {g['digest']}")
            if out.get("module") != g["module"]:
                self.violate("I-RES", f"module name {out.get('module')} != golden {g['module']}")
            if gh["holder"] == p.idx and cur.get("role") == "builder":
                gh["build"] = "complete"
                gh["holder_end"] = "returned"
            if cur.get("role") == "waiter" and gh["holder_end"] == "killed":
                self.bump("probe_waiter_served_after_builder_killed")
        else:
            exc = out.get("exc")
            if gh["holder"] == p.idx and cur.get("role") == "builder":
                # raised while still holding the lock (lock not renamed)
                gh["holder_end"] = "interrupted" if cur.get("interrupted") else "raised-holding"
                if gh["build"] == "building":
                    gh["build"] = "abandoned"
            if exc == "TimeoutError":
                self.bump("probe_timeout_raised")
                self.check_timeout(p, cur, t)
            rec["msg"] = out.get("msg")
            rec["tb"] = out.get("tb")
        # H-FAIL
        failing = cur["faulted"] & {"codegen-fail", "cc-fail", "ld-fail"}
        if "bad-library" in cur["faulted"] and cur.get("role") == "builder":
            failing = failing | {"bad-library"}  # only a request that actually links can fail by it
        if failing and out["result"] != "raised":
            self.violate("H-FAIL", f"process {p.idx}: {sorted(failing)} injected but the request returned")
        # I-GLOBAL.  An interrupted build is a failed build in a process that lives on, so it is
        # asserted there as well; not asserted for a process hit by a disk error (outside the
        # failures the property names)
        exempt = bool(cur["faulted"] & set(DISK_FAULTS))
        if not out.get("handlers_same"):
            if exempt:
                self.bump("probe_handlers_not_restored_after_disk_or_interrupt")
            else:
                self.violate("I-GLOBAL/handlers", f"process {p.idx} request {cur['req']} ({out['result']}"
                                                  f" {out.get('exc') or ''}): root logger handlers not restored")
        if not out.get("stdout_same"):
            if exempt:
                self.bump("probe_stdout_not_restored_after_disk_or_interrupt")
            else:
                self.violate("I-GLOBAL/stdout", f"process {p.idx} request {cur['req']}: sys.stdout not restored")
        if out.get("earlier_digest_same") is False:
            self.violate("I-RES", f"process {p.idx}: the objects an earlier request of this process returned no "
                                  f"longer compute what they computed then (after request {cur['req']}, "
                                  f"{out.get('earlier_digest_error') or 'other results'})")
        if out.get("fd_delta"):
            self.bump("probe_fd_delta_nonzero")
        if out.get("new_jit_sys_modules"):
            self.bump("probe_jit_module_in_sys_modules")
        for flag, key in (("cwd_same", "I-GLOBAL/cwd"), ("stderr_same", "I-GLOBAL/stderr"),
                          ("environ_same", "I-GLOBAL/environ"), ("root_level_same", "I-GLOBAL/root-level"),
                          ("warnings_filters_same", "I-GLOBAL/warnings-filters"),
                          ("ffcx_handlers_same", "I-GLOBAL/ffcx-logger-handlers"),
                          ("logging_disable_same", "I-GLOBAL/logging-disable")):
            if not out.get(flag, True):
                if exempt:
                    self.bump("probe_" + flag + "_violated_after_disk_error")
                else:
                    self.violate(key, f"process {p.idx} request {cur['req']} ({out['result']} "
                                      f"{out.get('exc') or ''}): {flag.replace('_same', '')} is not what it was "
                                      f"before the request")
        # H-REUSE: a complete, marked module is found and reused without recompiling
        if cur.get("expect_cached") and not cur["faulted"] and not cur.get("interrupted"):
            if out["result"] != "returned" or out.get("built") or cur.get("role") == "builder" \
                    or cur["sleeps"] != 0:
                self.violate("H-REUSE", f"request {cur['req']} on a complete cached module: result="
                                        f"{out['result']} {out.get('exc') or ''} built={out.get('built')} "
                                        f"role={cur.get('role')} sleeps={cur['sleeps']}")
            else:
                self.bump("probe_request_served_from_cache")
                if p.late:
                    self.bump("probe_late_request_served_from_cache")
        # H-FRESH
        if cur.get("expect_fresh") and not cur["faulted"] and not cur.get("interrupted"):
            if cur["sleeps"] != 0 or cur.get("role") != "builder" or out["result"] != "returned":
                self.violate("H-FRESH", f"request {cur['req']} after a failed build: sleeps={cur['sleeps']} "
                                        f"role={cur.get('role')} result={out['result']} {out.get('exc') or ''}")
            else:
                self.bump("probe_late_request_rebuilt_after_failed")
        p.cur = None
        p.pending = None
        p.state = "idle"

    def check_timeout(self, p, cur, t):
        """H-TO: a TimeoutError must be honest, stated in virtual time."""
        to = cur["timeout"]
        if cur["first_poll"] is None:
            self.violate("H-TO", f"process {p.idx} raised TimeoutError without ever looking for the marker")
            return
        if not cur.get("last_look_absent", True):
            self.violate("H-TO", f"process {p.idx} raised TimeoutError although the ready marker was "
                                 f"present at its last look")
        elapsed = cur["last_look_t"] - cur["first_poll"]
        lo = to - 1 - 1e-3
        if elapsed < lo - 1e-9:
            self.violate("H-TO", f"process {p.idx} gave up {elapsed:.3f}s after its first look; timeout={to}")
        total = t - cur["first_poll"]
        hi = to + cur["own_dur"] + 1 + 1e-3
        if total > hi:
            self.violate("H-TO", f"process {p.idx} raised TimeoutError {total:.3f}s after its first look; "
                                 f"timeout={to}, own latencies {cur['own_dur']:.3f}s")

    # ------------------------------------------------------------------ requests
    def decoy_phase(self, p):
        """Before its first simulated request the process makes one request, outside the
        simulation, with the spelling of the cache directory it will use later - while that
        spelling still denotes a private decoy directory (a symbolic link that is re-pointed
        afterwards, or a relative path followed by a chdir).  Whatever the process remembers about
        'its' cache directory must not survive the change of meaning."""
        how = (self.scn.get("decoy_first") or {}).get(str(p.name))
        if not how or p.decoy_done or self.cache != self.cache_root:
            return
        p.decoy_done = True
        decoy_root = os.path.join(self.tmp, f"decoy-{p.idx}")
        os.makedirs(decoy_root, exist_ok=True)
        req = p.requests[0]["req"]
        if how == "symlink":
            link = os.path.join(self.tmp, f"relink-{p.idx}")
            os.symlink(os.path.join(decoy_root, "cache"), link)
            self.send(p, {"cmd": "decoy", "req": req, "cache_arg": link})
        else:  # chdir: the same relative spelling, another working directory
            rel = os.path.basename(self.cache)
            self.send(p, {"cmd": "decoy", "req": req, "cache_arg": rel, "chdir_before": decoy_root,
                          "chdir_after": os.path.dirname(self.cache)})
        msg = self.recv(p)
        if not msg or msg.get("ev") != "decoy-done":
            raise core.HarnessError(f"jitsim decoy phase of process {p.idx} failed: {msg}")
        self.log.add(round(self.now, 6), p.idx, "decoy", how, msg.get("result"))
        self.bump("probe_decoy_phase_" + how)
        if how == "symlink":
            os.unlink(link)
            os.symlink(self.cache, link)
            p.fixed_cache_arg = link
        else:
            p.fixed_cache_arg = os.path.basename(self.cache)

    def start_request(self, p):
        self.decoy_phase(p)
        p.req_index += 1
        rq = p.requests[p.req_index]
        g = self.golden[rq["req"]]
        gh = self.g(g["module"])
        lock = self.path(g["module"] + ".c")
        p.cur = dict(req=rq["req"], timeout=rq["timeout"], module=g["module"], role=None, polls=0,
                     sleeps=0, first_poll=None, last_look_absent=True, last_look_t=None, seams=0,
                     seams_since_lock=0, own_dur=0.0, faulted=set(), in_cc=False,
                     expect_fresh=False,
                     expect_cached=(gh["build"] == "complete" and gh["marker"] in ("written", "empty")
                                    and gh["so_state"] == "complete" and not gh["disk_fault"])
                     or (gh["warm"] and gh["build"] == "complete"))
        self.now = max(self.now, p.ready)
        self.log.add(round(self.now, 6), p.idx, "request", rq["req"], rq["timeout"])
        kwargs = None
        for f in self.faults:
            # a request that fails by its own input: a library that does not exist makes the real
            # linker fail (cffi_libraries is not part of the module name, so the request shares
            # its module with the good requests)
            if f["kind"] == "bad-library" and not f["fired"] and f["proc"] == p.name \
                    and f.get("req_index", 0) == p.req_index:
                f["fired"] = True
                self.bump("fault_fired_bad-library")
                p.cur["faulted"].add("bad-library")
                p.faulted.add("bad-library")
                kwargs = {"cffi_libraries": ["jitsim_library_that_does_not_exist"]}
                self.log.add(round(self.now, 6), p.idx, "FAULT:bad-library")
        self.send(p, {"cmd": "request", "req": rq["req"], "timeout": rq["timeout"], "now": self.now,
                      "cache_arg": self.cache_arg(p), "kwargs": kwargs,
                      "bare_root": str(p.name) in (self.scn.get("bare_root") or [])})
        msg = self.recv(p)
        if msg is None:
            self.reap(p)
            p.state = "killed"
            raise core.HarnessError(f"jitsim child {p.idx} died when given a request")
        if msg["ev"] == "outcome":
            self.on_outcome(p, msg)
        else:
            p.pending = msg
            p.state = "pending"
            p.ready = self.now + 1e-5

    # ------------------------------------------------------------------ pre-state
    def install_pre(self):
        for pre in self.scn.get("pre", []):
            g = self.golden[pre["req"]]
            m = g["module"]
            gh = self.g(m)
            src = g["artefacts"]
            k = pre["kind"]
            self.log.add(0.0, -1, "pre", k, pre["req"])
            if k == "warm":
                for f in os.listdir(src):
                    if f.startswith(m):
                        shutil.copy2(os.path.join(src, f), self.path(f))
                gh.update(build="complete", marker="written", so_state="complete", warm=True,
                          holder_end="returned")
                so = [f for f in os.listdir(src) if f.startswith(m) and f.endswith(".so")]
                gh["so_size"] = os.path.getsize(os.path.join(src, so[0]))
            elif k == "orphan-lock":
                open(self.path(m + ".c"), "w").close()
                gh.update(pre_orphan=True, holder_end="killed", build="abandoned")
            elif k == "orphan-lock+torn-so":
                shutil.copy2(os.path.join(src, m + ".c"), self.path(m + ".c"))
                so = [f for f in os.listdir(src) if f.startswith(m) and f.endswith(".so")][0]
                data = open(os.path.join(src, so), "rb").read()
                with open(self.path(so), "wb") as f:
                    f.write(data[: int(len(data) * pre.get("frac", 0.5))])
                gh.update(pre_orphan=True, holder_end="killed", build="abandoned", so_state="torn")
            elif k == "warm+stale-failed":
                # an earlier failure, then a successful rebuild: complete module, marker, and the
                # .failed file of the first attempt still lying around
                for f in os.listdir(src):
                    if f.startswith(m):
                        shutil.copy2(os.path.join(src, f), self.path(f))
                shutil.copy2(os.path.join(src, m + ".c"), self.path(m + ".c.failed"))
                gh.update(build="complete", marker="written", so_state="complete", warm=True,
                          holder_end="returned")
                so = [f for f in os.listdir(src) if f.startswith(m) and f.endswith(".so")]
                gh["so_size"] = os.path.getsize(os.path.join(src, so[0]))
            elif k == "stale-failed+complete-so":
                # a build that linked completely and then failed (no marker, lock released)
                shutil.copy2(os.path.join(src, m + ".c"), self.path(m + ".c.failed"))
                for f in os.listdir(src):
                    if f.startswith(m) and f.endswith((".o", ".so")):
                        shutil.copy2(os.path.join(src, f), self.path(f))
                gh.update(build="failed", pre_failed=True, holder_end="raised", so_state="complete")
                so = [f for f in os.listdir(src) if f.startswith(m) and f.endswith(".so")]
                gh["so_size"] = os.path.getsize(os.path.join(src, so[0]))
            elif k == "stale-failed":
                shutil.copy2(os.path.join(src, m + ".c"), self.path(m + ".c.failed"))
                if pre.get("leftovers"):
                    for f in os.listdir(src):
                        if f.startswith(m) and f.endswith((".o", ".so")):
                            data = open(os.path.join(src, f), "rb").read()
                            with open(self.path(f), "wb") as fh:
                                fh.write(data[: int(len(data) * pre.get("frac", 0.5))])
                    gh["so_state"] = "torn"
                gh.update(build="failed", pre_failed=True, holder_end="raised")

    # ------------------------------------------------------------------ main loop
    def run_phase(self, procs):
        while True:
            for p in procs:
                if p.state == "new" and p.requests:
                    self.spawn(p)
            runnable = []
            for p in procs:
                if p.state == "idle" and p.req_index + 1 < len(p.requests):
                    runnable.append((p.ready, p))
                elif p.state == "pending":
                    runnable.append((p.ready, p))
            if runnable and all(r == math.inf for r, _ in runnable):
                # the awaited event never happened: these processes arrive now
                for _, p in runnable:
                    p.ready = self.now
            if not runnable:
                break
            tmin = min(r for r, _ in runnable)
            cands = [p for r, p in runnable if r <= tmin + 1e-12]
            p = cands[0] if len(cands) == 1 else self.rng_tie.choice(cands)
            if len(cands) > 1:
                self.bump("tie_breaks")
            if p.state == "idle":
                self.start_request(p)
            else:
                self.grant(p)
        for p in procs:
            if p.state in ("idle", "pending"):
                self.send(p, {"cmd": "exit"})
                self.reap(p)
                p.state = "done"

    def quiescence_checks(self, phase):
        for m, gh in self.ghost.items():
            lock = os.path.exists(self.path(m + ".c"))
            marker = os.path.exists(self.path(m + ".c.cached"))
            if lock and not marker:
                if gh["disk_fault"]:
                    self.bump("probe_lock_left_after_disk_error")
                elif gh["holder_end"] in ("raised", "raised-holding", "returned", "none") and not gh["pre_orphan"]:
                    self.violate("H-REL", f"{phase}: lock {m}.c left behind without ready marker although its "
                                          f"last holder ended with '{gh['holder_end']}' (not killed)")
                else:
                    self.bump("probe_orphan_lock_at_quiescence")

    def history_checks(self):
        scn = self.scn
        main = [p for p in self.procs if not p.late]
        if self.fault_free:
            # H-ALL
            for p in self.procs:
                for o in p.outcomes:
                    if o["result"] == "returned" or o.get("faulted"):
                        continue
                    if o["result"] == "raised" and o["exc"] == "TimeoutError":
                        self.bump("probe_legit_timeout_in_fault_free_run")
                        continue  # honesty was checked by H-TO
                    self.violate("H-ALL", f"fault-free run: process {p.idx} request {o['req']} ended with "
                                          f"{o['result']} {o.get('exc')}: {o.get('msg')}")
            # H-ONE
            requested = {self.golden[o["req"]]["module"] for p in self.procs for o in p.outcomes}
            for m, gh in self.ghost.items():
                want = 0 if (gh["warm"] or m not in requested) else 1
                if gh["compile_spawns"] != want or gh["link_spawns"] != want:
                    self.violate("H-ONE", f"fault-free run: module {m}: {gh['compile_spawns']} compile and "
                                          f"{gh['link_spawns']} link spawns, expected {want} each "
                                          f"(builders {gh['builders']})")
                if want and len(set(gh["compilers"])) > 1:
                    self.violate("H-ONE", f"module {m} compiled by several processes {gh['compilers']}")
        # H-SERVE: a request that was not itself hit by a fault, on a module without disk errors,
        # returns or times out honestly (H-TO) - whatever failed or died before or beside it
        for p in self.procs:
            for o in p.outcomes:
                if o["result"] != "raised" or o.get("exc") == "TimeoutError" or o.get("faulted"):
                    continue
                gh = self.ghost.get(self.golden[o["req"]]["module"], {})
                if gh.get("disk_fault") or o.get("interrupted"):
                    continue
                self.violate("H-SERVE", f"process {p.idx} request {o['req']} (role {o.get('role')}) was not hit by "
                                        f"any fault but raised {o.get('exc')}: {o.get('msg')}")
        # every request ended somehow
        for p in self.procs:
            if len(p.outcomes) < len(p.requests) and p.state != "killed":
                self.violate("H-LIVE", f"process {p.idx} did not finish its requests")

    def run(self):
        try:
            scn = self.scn
            self.install_pre()
            self.coarse_dir_time()
            for i, ps in enumerate(scn["procs"]):
                p = Proc(i, ps["requests"], ps.get("arrive", 0.0), name=ps.get("name", i),
                         after=ps.get("after"))
                p.rng = core.rng_for(scn["seed"], f"dur{p.name}")
                self.procs.append(p)
            self.run_phase(self.procs)
            self.quiescence_checks("main")
            for j, rq in enumerate(scn.get("late", [])):
                p = Proc(len(self.procs), [rq], self.now + 1.0 + j, late=True,
                         name=rq.get("name", f"late{j}"))
                p.rng = core.rng_for(scn["seed"], f"dur{p.name}")
                self.procs.append(p)
                self.run_phase([p])
            if scn.get("late"):
                self.quiescence_checks("late")
            self.history_checks()
            self.sim_seconds = self.now
        finally:
            for p in self.procs:
                if p.state in ("idle", "pending"):
                    try:
                        os.kill(p.pid, signal.SIGKILL)
                    except Exception:
                        pass
                    try:
                        self.reap(p)
                    except Exception:
                        pass
            if not self.keep_cache:
                shutil.rmtree(self.cache_root, ignore_errors=True)
            shutil.rmtree(self.tmp, ignore_errors=True)
        unfired = [f["kind"] for f in self.faults if not f["fired"]]
        return {
            "violations": self.viol, "events": self.log.events, "digest": self.log.digest(),
            "stats": self.stats, "sim_seconds": self.sim_seconds, "unfired": unfired,
            "outcomes": [[p.idx, o] for p in self.procs for o in p.outcomes],
            "ghost": {m: {k: v for k, v in gh.items()} for m, gh in self.ghost.items()},
        }


def run_scenario(scn, golden, memo_dir):
    return Sim(scn, golden, memo_dir).run()
