"""jitsim driver: goldens, scenario generation (swarm), crash-point sweep, minimisation,
replay, evidence for C14 (fault-free configurations) and C15 (fault-injecting ones)."""

from __future__ import annotations

import copy
import json
import os
import shutil
import sys
import time
from collections import Counter, defaultdict

from sim import core
from sim.jitsim import parent as P

STRETCH_CLASSES = ["stat:dir", "mkdir:dir", "open:lock", "stat:lock", "stat:failed", "replace:lock", "dlopen:so", "rename:tmp", "codegen:", "spawn-compile-end:obj", "spawn-link:so",
                   "spawn-link-end:so", "open:marker", "write:marker", "close:marker", "chdir:dir"]
TRIGGER_CLASSES = ["open:lock", "replace:lock", "replace:lock", "close:marker", "open:marker", "spawn-link-end:so",
                   "spawn-link:so", "codegen:", "unlink:lock", "rename:tmp"]
FAULT_KINDS = ["kill", "kill", "kill", "interrupt", "codegen-fail", "cc-fail", "cc-fail", "ld-fail",
               "marker-enospc", "lock-eacces", "kill-torn-link", "kill-torn-obj", "stall",
               "torn-write-kill", "load-fail", "bad-library"]
PRE_KINDS_C15 = ["orphan-lock", "orphan-lock+torn-so", "stale-failed", "stale-failed+leftovers", "warm",
                 "warm+stale-failed", "stale-failed+complete-so"]


# --------------------------------------------------------------------------------------
# goldens: what this tree builds when nobody interferes


def _plain_build(name, outdir):
    """Un-simulated reference build in a forked child (no seams, real gcc)."""
    r, w = os.pipe()
    pid = os.fork()
    if pid == 0:
        try:
            os.close(r)
            from sim.jitsim import child
            import ffcx.codegeneration.jit as jit

            req, objs = P.pool()[name]
            fn = jit.compile_forms if req.kind == "forms" else jit.compile_expressions
            res, module, code = fn(list(objs), options=dict(req.options), cache_dir=outdir,
                                   **req.jit_kwargs)
            out = {"module": module.__name__, "digest": child.kernel_digest(req.kind, res, module)}
            os.write(w, json.dumps(out).encode())
        except BaseException:
            import traceback

            os.write(w, json.dumps({"error": traceback.format_exc()[-2000:]}).encode())
        finally:
            os._exit(0)
    os.close(w)
    data = b""
    while True:
        chunk = os.read(r, 65536)
        if not chunk:
            break
        data += chunk
    os.close(r)
    os.waitpid(pid, 0)
    out = json.loads(data or b'{"error": "no output"}')
    if "error" in out:
        raise core.HarnessError(f"golden build of {name} failed: {out['error']}")
    return out


def make_goldens(memo_dir):
    P.pool()
    golden = {}
    root = core.scratch_dir("jitgolden-")
    for name in P.TINY:
        art = os.path.join(root, name)
        os.makedirs(art)
        g = _plain_build(name, art)
        g["artefacts"] = art
        g["seams"] = 60
        golden[name] = g
    # simulated solo builder: counts seams, cross-checks that the seams + memoised compiler
    # do not change what is built.  These are ordinary runs: their violations count.
    solo = []
    for name in P.TINY:
        scn = {"seed": 1, "mode": "C14", "pre": [], "faults": [], "stretch": [], "late": [],
               "procs": [{"name": 0, "arrive": 0.0, "requests": [{"req": name, "timeout": 3}]}]}
        res = P.run_scenario(scn, golden, memo_dir)
        res["scn"] = scn
        res["wall"] = 0.0
        solo.append(res)
        if any(k == "I-RES" for k, _ in res["violations"]) and len(res["violations"]) == 1:
            raise core.HarnessError(f"simulated solo build of {name} disagrees with the plain build: "
                                    f"{res['violations'][:2]}")
        golden[name]["seams"] = res["stats"]["seams"]
        golden[name]["trace"] = [[e[2], e[3]] for e in res["events"] if isinstance(e[1], int) and e[1] == 0]
    return golden, solo


def names_in_fresh_interpreter(hashseed, names):
    """Module and object names the real compile_forms/compile_expressions derive for the tiny
    requests in a *fresh interpreter* with the given PYTHONHASHSEED (histsim's child with the C
    compiler stubbed).  The simulated processes of a run are forks of one zygote and so share
    its hash seed; real concurrent processes (MPI ranks) do not."""
    import subprocess

    child = os.path.join(os.path.dirname(os.path.dirname(os.path.abspath(__file__))), "histsim", "child.py")
    ops = []
    for i, n in enumerate(names):
        ops.append(["build", f"s{i}", n, []])
        ops.append(["jitname", f"s{i}", P.JIT_KW])
    scn = {"ops": ops, "want_text": False, "scratch": core.scratch_root()}
    env = core.child_env({"PYTHONHASHSEED": str(hashseed)})
    r = subprocess.run([sys.executable, child], input=json.dumps(scn).encode(), stdout=subprocess.PIPE,
                       stderr=subprocess.PIPE, env=env, timeout=600)
    if r.returncode != 0:
        raise core.HarnessError(f"name probe under hash seed {hashseed} failed: "
                                + r.stderr.decode(errors="replace")[-800:])
    res = json.loads(r.stdout)
    return {o["D"]: [o.get("module_name"), o.get("object_names")] for o in res["obs"]}


def name_agreement(golden, hashseeds):
    """-> list of (key, detail, payload) violations: every process, whatever its hash seed, must
    derive the module name the zygote derived - otherwise concurrent requests for the same forms
    never meet on one lock and each compiles its own copy ('exactly one of them compiles')."""
    out = []
    seen = {}
    for hs in hashseeds:
        seen[hs] = names_in_fresh_interpreter(hs, P.TINY)
    for n in P.TINY:
        ref = golden[n]["module"]
        objs = {hs: tuple(seen[hs][n][1] or ()) for hs in hashseeds}
        for hs in hashseeds:
            if seen[hs][n][0] != ref:
                out.append(("H-ONE/name-agreement",
                            f"request {n}: a fresh interpreter with PYTHONHASHSEED={hs} derives module name "
                            f"{seen[hs][n][0]}, the simulated processes derive {ref}: requests for the same "
                            f"forms would not share a lock or a cached module",
                            {"kind": "names", "hashseeds": [hs], "req": n}))
                break
        else:
            if len(set(objs.values())) > 1:
                out.append(("H-ONE/name-agreement",
                            f"request {n}: object names differ between hash seeds: {objs}",
                            {"kind": "names", "hashseeds": list(hashseeds), "req": n}))
    return out


# --------------------------------------------------------------------------------------
# scenario generation


def gen_scenario(seed, mode, thorough, golden):
    rng = core.rng_for(seed, "jitscn-" + mode)
    nmax = 6 if thorough else 4
    nprocs = rng.choice([1, 2, 2, 3, 3, 4] + ([5, 6] if thorough else []))
    nprocs = min(nprocs, nmax)
    mods = rng.sample(P.TINY, rng.choice([1, 1, 2]))
    spread = rng.random() < 0.6
    procs = []
    for i in range(nprocs):
        nreq = rng.choice([1, 1, 1, 2])
        reqs = [{"req": rng.choice(mods), "timeout": rng.choice([1, 2, 3, 3, 5, 5, 10, 10, 30])}
                for _ in range(nreq)]
        procs.append({"name": i, "arrive": round(rng.uniform(0, 3.0), 3) if spread else 0.0,
                      "requests": reqs})
    # event-triggered arrivals: some processes arrive right behind a state change of the protocol
    for pr in procs[1:]:
        if rng.random() < 0.3:
            pr["after"] = {"event": rng.choice(TRIGGER_CLASSES), "delay": round(rng.choice([0.0, 0.01, 0.1, 0.5]), 3)}
    scn = {"seed": seed, "mode": mode, "procs": procs, "pre": [], "faults": [], "stretch": [], "late": []}
    if rng.random() < 0.3:
        scn["cache_spelling"] = {str(pr["name"]): rng.choice(["symlink", "relative", "abs"]) for pr in procs}
    # processes in which nobody configured logging (no handler on the root logger)
    scn["bare_root"] = [str(pr["name"]) for pr in procs if rng.random() < 0.4]
    if rng.random() < 0.15:
        scn["fresh_cache_dir"] = True  # honoured only in runs without pre-state
    if rng.random() < 0.12:
        # one process used the same spelling of the cache directory before, when it still meant
        # another directory (re-pointed symbolic link / relative path and a chdir)
        scn["decoy_first"] = {str(rng.choice(procs)["name"]): rng.choice(["symlink", "chdir"])}
    if rng.random() < 0.4:
        # a file system with 2 s time stamps, or NFS with a 60 s attribute cache
        scn["coarse_mtime"] = rng.choice([2, 60])
    for _ in range(rng.choice([0, 1, 1, 2])):
        scn["stretch"].append({"proc": "holder", "after": rng.choice(STRETCH_CLASSES),
                               "dur": round(rng.uniform(0.3, 1.5), 3)})
    for j in range(rng.choice([0, 1, 2] if mode == "C14" else [1, 1, 2])):
        scn["late"].append({"name": f"late{j}", "req": rng.choice(mods), "timeout": rng.choice([1, 2, 3])})
    if mode == "C14":
        c = rng.random()
        if c < 0.3:
            scn["pre"].append({"kind": "warm", "req": rng.choice(mods)})
        elif c < 0.45:
            # history, not a fault of this run: an earlier build of the module failed, released
            # its lock and left <module>.c.failed (and possibly partial outputs) behind
            pre = {"kind": "stale-failed", "req": rng.choice(mods), "frac": round(rng.uniform(0.05, 0.95), 2)}
            if rng.random() < 0.5:
                pre["leftovers"] = True
            scn["pre"].append(pre)
        elif c < 0.55:
            scn["pre"].append({"kind": rng.choice(["warm+stale-failed", "stale-failed+complete-so"]),
                               "req": rng.choice(mods)})
        if rng.random() < 0.15:
            scn["faults"].append({"kind": "stall", "proc": "holder", "at": rng.randrange(0, 25),
                                  "dur": round(rng.uniform(5, 60), 2)})
        if rng.random() < 0.12:
            # one process cannot load the (complete) module - a transient dlopen failure; nothing
            # the other processes are promised depends on it
            tp = rng.choice(procs + [{"name": l["name"]} for l in scn["late"]])
            scn["faults"].append({"kind": "load-fail", "proc": tp["name"]})
        return scn
    # ---- C15: faults inside in-flight state --------------------------------------------
    if rng.random() < 0.35:
        k = rng.choice(PRE_KINDS_C15)
        pre = {"kind": k.split("+leftovers")[0], "req": rng.choice(mods), "frac": round(rng.uniform(0.05, 0.95), 2)}
        if k.endswith("+leftovers"):
            pre["leftovers"] = True
        scn["pre"].append(pre)
    nf = rng.choices([0, 1, 2], [0.1, 0.7, 0.2])[0]
    gseams = max(g["seams"] for g in golden.values())
    for _ in range(nf):
        kind = rng.choice(FAULT_KINDS)
        c = rng.random()
        f = {"kind": kind}
        if kind in ("kill", "interrupt", "stall"):
            if c < 0.6:
                f.update(proc="holder", at=rng.randrange(0, gseams + 1))
            elif c < 0.85:
                tp = rng.choice(procs)
                f.update(proc=tp["name"], at=rng.randrange(0, 2 * tp["requests"][0]["timeout"] + 6))
            else:
                tp = rng.choice(procs)
                f.update(proc=tp["name"], at=rng.randrange(0, gseams + 1))
            if f["proc"] != "holder" and len(tp["requests"]) > 1 and rng.random() < 0.5:
                f["req_index"] = 1  # the fault hits the second request of that process
            if kind == "interrupt" and rng.random() < 0.3:
                f["exc"] = "SystemExit"
            if kind == "stall":
                f["dur"] = round(rng.uniform(5, 60), 2)
        elif kind == "lock-eacces":
            f.update(proc=rng.choice(procs)["name"])
        elif kind == "load-fail":
            f.update(proc="holder" if c < 0.7 else rng.choice(procs)["name"])
        elif kind == "bad-library":
            tp = rng.choice(procs)
            f.update(proc=tp["name"], req_index=0)
        else:
            f.update(proc="holder")
            if kind == "marker-enospc":
                f["on"] = rng.choice(["open", "write"])
            if kind in ("kill-torn-link", "kill-torn-obj", "torn-write-kill"):
                f["frac"] = round(rng.uniform(0.0, 1.0), 2)
            if kind == "torn-write-kill":
                f["role"] = rng.choice(["tmp", "tmp", "marker"])
        scn["faults"].append(f)
    return scn


def sweep_scenarios(golden):
    """Exhaustive crash points of two canonical schedules (builder alone; builder + waiter)."""
    out = []
    name = P.TINY[0]
    n = golden[name]["seams"]
    for with_waiter in (False, True):
        base = {"seed": 7, "mode": "C15", "pre": [], "stretch": [],
                "procs": [{"name": 0, "arrive": 0.0, "requests": [{"req": name, "timeout": 3}]}],
                "late": [{"name": "late0", "req": name, "timeout": 2},
                         {"name": "late1", "req": name, "timeout": 1}]}
        if with_waiter:
            base["procs"].append({"name": 1, "arrive": 0.5, "requests": [{"req": name, "timeout": 3}]})
            base["stretch"] = [{"proc": "holder", "after": "spawn-compile-end:obj", "dur": 1.2}]
        for k in range(n + 1):
            for kind in ("kill", "interrupt"):
                s = copy.deepcopy(base)
                s["faults"] = [{"kind": kind, "proc": 0, "at": k}]
                s["sweep"] = f"{'pair' if with_waiter else 'solo'}/{kind}@{k}"
                out.append(s)
        if not with_waiter:
            # the interrupted process itself asks again (a notebook after Ctrl-C)
            for k in range(n + 1):
                s = copy.deepcopy(base)
                s["procs"][0]["requests"].append({"req": name, "timeout": 2})
                s["faults"] = [{"kind": "interrupt", "proc": 0, "at": k}]
                s["late"] = s["late"][:1]
                s["sweep"] = f"solo-retry/interrupt@{k}"
                out.append(s)
        for kind in ("codegen-fail", "cc-fail", "ld-fail", "marker-enospc", "kill-torn-link",
                     "kill-torn-obj", "torn-write-kill", "lock-eacces", "load-fail"):
            for variant in range(2):
                s = copy.deepcopy(base)
                f = {"kind": kind, "proc": 0 if kind == "lock-eacces" else "holder"}
                if kind == "marker-enospc":
                    f["on"] = ["open", "write"][variant]
                elif kind in ("kill-torn-link", "kill-torn-obj", "torn-write-kill"):
                    f["frac"] = [0.1, 0.9][variant]
                    if kind == "torn-write-kill":
                        f["role"] = ["tmp", "marker"][variant]
                elif variant:
                    continue
                s["faults"] = [f]
                s["sweep"] = f"{'pair' if with_waiter else 'solo'}/{kind}/{variant}"
                out.append(s)
                if kind in ("codegen-fail", "cc-fail", "ld-fail") and not with_waiter:
                    s2 = copy.deepcopy(s)
                    s2["bare_root"] = ["0"]
                    s2["sweep"] += "/bare-root-logger"
                    out.append(s2)
    # repeated failures of the same module, then a clean request (every pair of failure kinds)
    for k1 in ("codegen-fail", "cc-fail", "ld-fail"):
        for k2 in ("codegen-fail", "cc-fail", "ld-fail"):
            s = {"seed": 11, "mode": "C15", "pre": [], "stretch": [],
                 "procs": [{"name": 0, "arrive": 0.0, "requests": [{"req": name, "timeout": 2}]}],
                 "late": [{"name": "late0", "req": name, "timeout": 2},
                          {"name": "late1", "req": name, "timeout": 2},
                          {"name": "late2", "req": name, "timeout": 1}],
                 "faults": [{"kind": k1, "proc": 0}, {"kind": k2, "proc": "late0"}],
                 "sweep": f"double-failure/{k1}/{k2}"}
            out.append(s)
    # a failing builder with two waiters and a newcomer during the failure handling
    for k1 in ("codegen-fail", "cc-fail", "ld-fail"):
        s = {"seed": 13, "mode": "C15", "pre": [],
             "stretch": [{"proc": "holder", "after": "codegen:", "dur": 1.4}],
             "procs": [{"name": 0, "arrive": 0.0, "requests": [{"req": name, "timeout": 3}]},
                       {"name": 1, "arrive": 0.2, "requests": [{"req": name, "timeout": 3}]},
                       {"name": 2, "arrive": 0.4, "requests": [{"req": name, "timeout": 3}]},
                       {"name": 3, "arrive": 2.5, "requests": [{"req": name, "timeout": 3}]}],
             "late": [{"name": "late0", "req": name, "timeout": 2}],
             "faults": [{"kind": k1, "proc": 0}], "sweep": f"failure-with-waiters/{k1}"}
        out.append(s)
    # a request that fails at link time through its own input (a library that does not exist),
    # followed by a request of the same process for the same and for another module
    for second in (P.TINY[0], P.TINY[1]):
        s = {"seed": 19, "mode": "C15", "pre": [], "stretch": [],
             "procs": [{"name": 0, "arrive": 0.0, "requests": [{"req": name, "timeout": 2},
                                                              {"req": second, "timeout": 2}]}],
             "late": [{"name": "late0", "req": name, "timeout": 2}],
             "faults": [{"kind": "bad-library", "proc": 0, "req_index": 0}],
             "sweep": f"bad-library-then/{second}"}
        out.append(s)
    # a failing builder and newcomers that arrive right behind its release of the lock (and one
    # behind the first newcomer's own lock acquisition): whatever the failure handling still does
    # after the release must not touch the successor's lock
    for k1 in ("codegen-fail", "cc-fail", "ld-fail"):
        for d1 in (0.0, 0.2):
            s = {"seed": 17, "mode": "C15", "pre": [],
                 "stretch": [{"proc": "holder", "after": "replace:lock", "dur": 1.0}],
                 "procs": [{"name": 0, "arrive": 0.0, "requests": [{"req": name, "timeout": 3}]},
                           {"name": 1, "requests": [{"req": name, "timeout": 3}],
                            "after": {"event": "replace:lock", "delay": d1}},
                           {"name": 2, "requests": [{"req": name, "timeout": 3}],
                            "after": {"event": "replace:lock", "delay": 1.2}},
                           {"name": 3, "requests": [{"req": name, "timeout": 3}],
                            "after": {"event": "replace:lock", "delay": 1.4}}],
                 "late": [{"name": "late0", "req": name, "timeout": 2}],
                 "faults": [{"kind": k1, "proc": 0}], "sweep": f"newcomers-behind-release/{k1}/{d1}"}
            out.append(s)
    return out


# --------------------------------------------------------------------------------------
# worker side

_CTX = {}


def _ctx(gpath):
    if gpath not in _CTX:
        with open(gpath) as f:
            _CTX[gpath] = json.load(f)
    return _CTX[gpath]


def _run_job(a):
    kind, payload, mode, thorough, gpath, memo = a
    golden = _ctx(gpath)
    scn = gen_scenario(payload, mode, thorough, golden) if kind == "seed" else payload
    t0 = time.time()
    res = P.run_scenario(scn, golden, memo)
    res["scn"] = scn
    res["wall"] = time.time() - t0
    res["events"] = res["events"] if res["violations"] else res["events"][:0]
    return res


def keyset(res):
    return sorted({k for k, _ in res["violations"]})


# --------------------------------------------------------------------------------------
# minimisation: greedy scenario reduction keeping the same invariant id


def _transforms(scn):
    """Yield (description, smaller scenario)."""
    for i in range(len(scn.get("faults", []))):
        s = copy.deepcopy(scn)
        del s["faults"][i]
        yield f"drop fault {i}", s
    for i in range(len(scn.get("late", []))):
        s = copy.deepcopy(scn)
        del s["late"][i]
        yield f"drop late {i}", s
    for i in range(len(scn.get("stretch", []))):
        s = copy.deepcopy(scn)
        del s["stretch"][i]
        yield f"drop stretch {i}", s
    for i in range(len(scn.get("pre", []))):
        s = copy.deepcopy(scn)
        del s["pre"][i]
        yield f"drop pre {i}", s
    if scn.get("cache_spelling"):
        s = copy.deepcopy(scn)
        del s["cache_spelling"]
        yield "absolute cache paths", s
    if scn.get("decoy_first"):
        s = copy.deepcopy(scn)
        del s["decoy_first"]
        yield "no decoy phase", s
    if scn.get("fresh_cache_dir"):
        s = copy.deepcopy(scn)
        del s["fresh_cache_dir"]
        yield "existing cache directory", s
    if scn.get("coarse_mtime"):
        s = copy.deepcopy(scn)
        del s["coarse_mtime"]
        yield "fine directory time stamps", s
    if len(scn["procs"]) > 1:
        for i in range(len(scn["procs"])):
            s = copy.deepcopy(scn)
            name = s["procs"][i]["name"]
            del s["procs"][i]
            s["faults"] = [f for f in s.get("faults", []) if f.get("proc") != name]
            yield f"drop proc {name}", s
    for i, p in enumerate(scn["procs"]):
        if len(p["requests"]) > 1:
            s = copy.deepcopy(scn)
            s["procs"][i]["requests"] = s["procs"][i]["requests"][:-1]
            yield f"drop last request of proc {p['name']}", s
        if p.get("arrive", 0.0) != 0.0:
            s = copy.deepcopy(scn)
            s["procs"][i]["arrive"] = 0.0
            yield f"arrive 0 for proc {p['name']}", s
        if p.get("after"):
            s = copy.deepcopy(scn)
            del s["procs"][i]["after"]
            yield f"untriggered arrival for proc {p['name']}", s
        for j, rq in enumerate(p["requests"]):
            if rq["timeout"] > 1:
                s = copy.deepcopy(scn)
                s["procs"][i]["requests"][j]["timeout"] = max(1, rq["timeout"] // 2)
                yield f"halve timeout proc {p['name']}", s
    for i, f in enumerate(scn.get("faults", [])):
        if f.get("at", 0) > 0:
            s = copy.deepcopy(scn)
            s["faults"][i]["at"] = f["at"] // 2
            yield f"halve fault position {i}", s


def minimise(scn, key, golden, memo, budget=60):
    tests = 0
    progress = True
    while progress and tests < budget:
        progress = False
        for desc, cand in _transforms(scn):
            tests += 1
            try:
                res = P.run_scenario(cand, golden, memo)
            except core.HarnessError:
                continue
            if any(k == key for k, _ in res["violations"]):
                scn = cand
                progress = True
                break
            if tests >= budget:
                break
    return scn


def _minimise_job(a):
    scn, key, gpath, memo = a
    golden = _ctx(gpath)
    small = minimise(scn, key, golden, memo)
    res = P.run_scenario(small, golden, memo)
    return small, res


def replay(path):
    rp = core.load_replay(path)
    prop = rp["property"]
    memo = core.scratch_dir("jitmemo-")
    golden, _ = make_goldens(memo)
    if rp["scenario"].get("kind") == "names":
        v = name_agreement(golden, rp["scenario"]["hashseeds"])
        hit = [x for x in v if x[0] == rp["invariant"]]
        print(f"replay {path}: invariant {rp['invariant']} " + ("REPRODUCED" if hit else "not reproduced"))
        for x in hit[:1]:
            print("  " + x[1])
        if hit:
            print(f"VIOLATION property={prop} replay={path}")
        return 1 if hit else 0
    res = P.run_scenario(rp["scenario"], golden, memo)
    hit = [v for v in res["violations"] if v[0] == rp["invariant"]]
    same = res["digest"] == rp.get("digest")
    print(f"replay {path}: invariant {rp['invariant']} " + ("REPRODUCED" if hit else "not reproduced")
          + f"; event-log digest {'identical' if same else 'differs'}")
    for v in hit[:1]:
        print("  " + v[1])
    if hit:
        print(f"VIOLATION property={prop} replay={path}")
    return 1 if hit else 0


# --------------------------------------------------------------------------------------
# the checks

REQUIRED_PROBES = {
    "C14": ["probe_waiter_polled_while_lock_held", "probe_late_request_served_from_cache",
            "probe_two_modules_built_concurrently"],
    "C15": ["probe_waiter_polled_while_lock_held", "probe_builder_killed_with_lock_held",
            "probe_request_hit_orphan_lock", "probe_late_request_rebuilt_after_failed",
            "probe_timeout_raised", "probe_lock_renamed_to_failed"],
}


def run_check(prop, tier, base, replay_path=None):
    if replay_path:
        return replay(replay_path)
    t0 = time.time()
    thorough = tier == "thorough"
    mode = prop
    verd = core.Verdicts(prop)
    memo = core.scratch_dir("jitmemo-")
    try:
        golden, solo = make_goldens(memo)
    except core.HarnessError as e:
        verd.add_harness(str(e))
        return verd.finish()
    gpath = os.path.join(core.scratch_root(), f"jitgolden-{prop}.json")
    with open(gpath, "w") as f:
        json.dump(golden, f)
    _CTX[gpath] = golden
    t_gold = time.time() - t0

    n_runs = int(os.environ.get("VERIF_RUNS", 0)) or {
        ("C14", False): 260, ("C14", True): 6000, ("C15", False): 260, ("C15", True): 6000}[(prop, thorough)]
    jobs = [("seed", core.run_seed(base, i), mode, thorough, gpath, memo) for i in range(n_runs)]
    sweep = []
    if prop == "C15":
        sweep = sweep_scenarios(golden)
        jobs += [("scn", s, mode, thorough, gpath, memo) for s in sweep]
    ndet = 12 if not thorough else 48
    det_jobs = [("seed", core.run_seed(base, 800_000 + i), mode, thorough, gpath, memo) for i in range(ndet)]
    try:
        results = core.pmap(_run_job, jobs, wall_cap=600)
        d1 = core.pmap(_run_job, det_jobs, wall_cap=600)
        d2 = core.pmap(_run_job, det_jobs[::-1], wall_cap=600, workers=max(1, core.n_workers() // 2))[::-1]
    except core.HarnessError as e:
        verd.add_harness(str(e))
        return verd.finish()
    nondet = sum(1 for x, y in zip(d1, d2) if x["digest"] != y["digest"])
    if nondet:
        verd.add_harness(f"determinism self-test: {nondet}/{ndet} runs changed digest on re-run")

    results = solo + results
    bykey = defaultdict(list)
    for r in results:
        for k in keyset(r):
            bykey[k].append(r)
    todo = []
    for key in sorted(bykey):
        if verd.is_known(key):
            verd.add(key, None, "")
            continue
        w = min(bykey[key], key=lambda r: (len(r["scn"]["procs"]) + len(r["scn"].get("faults", []))
                                           + len(r["scn"].get("late", [])), r["scn"]["seed"]))
        todo.append((w["scn"], key, gpath, memo))
    try:
        mins = core.pmap(_minimise_job, todo, wall_cap=1800)
    except core.HarnessError as e:
        verd.add_harness(str(e))
        mins = []
    n = 0
    name_hashseeds = []
    if prop == "C14":
        hrng = core.rng_for(core.run_seed(base, 0), "name-agreement")
        name_hashseeds = [hrng.randrange(1, 2**32 - 1) for _ in range(4 if thorough else 2)] + [1]
        try:
            for key, detail, scn_n in name_agreement(golden, name_hashseeds):
                if verd.is_known(key):
                    verd.add(key, None, "")
                    continue
                path = core.write_replay(prop, base, 900 + n, {
                    "engine": "jitsim", "property": prop, "invariant": key, "scenario": scn_n,
                    "detail": detail})
                n += 1
                verd.add(key, path, detail)
        except core.HarnessError as e:
            verd.add_harness(str(e))
    for (scn, key, _, _), (small, res) in zip(todo, mins):
        hit = [v for v in res["violations"] if v[0] == key]
        payload = {"engine": "jitsim", "property": prop, "invariant": key, "scenario": small,
                   "original_scenario": scn, "witnesses_in_batch": len(bykey[key]),
                   "digest": res["digest"], "detail": hit[0][1] if hit else None,
                   "event_log": res["events"], "outcomes": res["outcomes"]}
        path = core.write_replay(prop, scn["seed"], n, payload)
        n += 1
        if not hit:
            verd.add_harness(f"minimised scenario for {key} did not reproduce (replay {path})")
        else:
            verd.add(key, path, f"{len(bykey[key])} witnesses; minimised to {len(small['procs'])} procs, "
                                f"{len(small.get('faults', []))} faults, {len(small.get('late', []))} late: "
                                + hit[0][1])

    # ---- evidence --------------------------------------------------------------------------
    core.dump_digests((json.dumps(r["scn"], sort_keys=True)[:80] + str(r["scn"]["seed"]) + str(i), r["digest"])
                      for i, r in enumerate(results))
    wall = time.time() - t0
    stats = Counter()
    for r in results:
        stats.update(r["stats"])
    sim_seconds = sum(r["sim_seconds"] for r in results)
    digests = {r["digest"] for r in results}
    nontrivial = {r["digest"] for r in results
                  if len(r["scn"]["procs"]) + len(r["scn"].get("late", [])) >= 2
                  or r["scn"].get("faults")}
    unfired = Counter()
    for r in results:
        unfired.update(r["unfired"])
    outcomes = Counter()
    for r in results:
        for _, o in r["outcomes"]:
            outcomes[f"{o['result']}:{o.get('exc') or ''}:{o.get('role') or ''}"] += 1
    probes = {k: v for k, v in stats.items() if k.startswith("probe_")}
    missing = [k for k in REQUIRED_PROBES[prop] if not probes.get(k)]
    if missing and not os.environ.get("VERIF_RUNS"):
        verd.add_harness(f"reach self-test: probes stuck at zero: {missing}")
    run_wall = max(wall - t_gold, 1e-6)
    cov = {
        "evaluations": len(results),
        "distinct_nontrivial": len(nontrivial),
        "rule": "one evaluation = one simulated run: 1-6 real forked processes running the real "
                "compile_forms/compile_expressions on one real cache directory, every file-system, sleep, "
                "compiler-spawn, code-generation and dlopen step granted one at a time by the seeded "
                "scheduler in virtual time.  distinct_nontrivial = distinct event-log digests among runs "
                "with at least two requests or at least one fault (a digest covers the whole interleaving, "
                "all outcomes and all injected faults).",
        "samples": [results[i]["scn"] for i in range(min(3, len(results)))] + (
            [sweep[0], sweep[len(sweep) // 2]] if sweep else []),
        "seeded_runs": n_runs,
        "sweep_runs": len(sweep),
        "sweep_exhaustive_over": "every seam index of the builder in two canonical schedules x {kill, interrupt}"
                                 " plus each failure kind" if sweep else None,
        "distinct_run_digests": len(digests),
        "runs_per_hour": round(len(results) / run_wall * 3600),
        "seeds_per_hour": round(n_runs / run_wall * 3600),
        "simulated_seconds": round(sim_seconds, 1),
        "simulated_seconds_per_hour": round(sim_seconds / run_wall * 3600),
        "scheduler_grants": stats["seams"],
        "tie_breaks": stats["tie_breaks"],
        "fault_kinds_fired": {k[len("fault_fired_"):]: v for k, v in stats.items()
                              if k.startswith("fault_fired_")},
        "faults_configured_but_not_reached": dict(unfired),
        "stretches_applied": stats["stretch_applied"],
        "outcomes": dict(outcomes),
        "probes": probes,
        "determinism_selftest": {"runs": ndet, "digest_mismatches": nondet,
                                 "second_pass_workers": max(1, core.n_workers() // 2)},
        "golden_builder_seams": {k: v["seams"] for k, v in golden.items()},
        "name_agreement_hashseeds": name_hashseeds,
        "components": {
            "real": ["ffcx.codegeneration.jit (all of it)", "ffcx code generation", "cffi recompile",
                     "setuptools build_ext", "gcc and ld (first build of each distinct source; memoised "
                     "by content afterwards)", "tmpfs directory", "importlib + dlopen", "the kernels", "SIGKILL"],
            "stub": ["time.sleep/time.time (virtual clock)", "process start (fork of a pre-imported zygote)",
                     "non-atomic output write of the compiler/linker (modelled as torn prefix, then rest)",
                     "compiler output for a source already compiled in this check (content-addressed memo)"],
        },
    }
    core.write_evidence(
        prop, tier, base, "exploration" if prop == "C14" else "fault_enumeration", cov,
        ["sampled schedules and fault sequences; the crash-point sweep is exhaustive only for its two "
         "canonical schedules" if prop == "C15" else "sampled schedules, not all schedules",
         "'correct kernels' means bit-identical results to what this tree builds in isolation",
         "a killed process loses nothing it had written (process crash, not power loss)",
         "local POSIX file system semantics for O_EXCL and rename"],
        wall, len(verd.new))
    return verd.finish()
