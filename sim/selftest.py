"""Self-tests of the machinery (not registered as property checks).

  check.py selftest sensitivity [NAME ...]   break a property on purpose in a scratch copy of the
                                             ffcx package (used through VERIF_REPO, deleted afterwards)
                                             and confirm the corresponding quick check reports a violation
  check.py selftest determinism              re-run each engine's sample under another harness hash seed
                                             and worker count and compare run digests
  check.py selftest list
"""

from __future__ import annotations

import os
import shutil
import subprocess
import sys
import tempfile

from sim import core

JIT = "ffcx/codegeneration/jit.py"

# (name, property, expected invariant prefix, [(file, old, new, count)], VERIF_RUNS)
MUTANTS = [
    ("jit-waiter-tests-so-not-marker", "C14", "I-LOAD", [
        (JIT, "            if os.path.exists(ready_name):\n",
         "            if list(cache_dir.glob(module_name + '*.so')):\n", 1)], 200),
    ("jit-lock-opened-with-w", "C14", "I-ME", [
        (JIT, 'with open(c_filename, "x"):', 'with open(c_filename, "w"):', 1)], 120),
    ("jit-marker-before-compile", "C14", "I-", [
        (JIT, "        with redirect_stdout(f):\n            ffibuilder.compile(",
         "        open(ready_name, 'x').close()\n        with redirect_stdout(f):\n            ffibuilder.compile(", 1),
        (JIT, 'fd = open(ready_name, "x")', 'fd = open(ready_name, "w")', 1)], 200),
    ("jit-no-rename-to-failed", "C15", "H-", [
        (JIT, 'os.replace(c_filename, c_filename.with_suffix(".c.failed"))', "pass", 2)], 120),
    ("jit-poll-forever", "C15", "H-LIVE", [
        (JIT, "        for i in range(timeout):\n", "        while True:\n", 1)], 120),
    ("jit-no-sleep", "C14", "H-TO", [
        (JIT, "            time.sleep(1)\n", "            pass\n", 1)], 200),
    ("jit-handlers-not-restored-on-failure", "C15", "I-GLOBAL", [
        (JIT, "    finally:\n        # Copy back the original handlers (in case someone is logging into\n"
              "        # root logger and has custom handlers), also when the build fails\n"
              "        root_logger.handlers = old_handlers\n",
         "    except BaseException:\n        raise\n    root_logger.handlers = old_handlers\n", 1)], 120),
    ("fmt-static-temporaries", "C07", "K-", [
        ("ffcx/codegeneration/C/formatter.py", 'cstr = "static const " if arr.const else ""',
         'cstr = "static const " if arr.const else "static "', 1)], 200),
    ("fmt-assign-instead-of-add-on-A", "C07", "K-ADD", [
        ("ffcx/codegeneration/C/formatter.py", '        return f"{lhs} {expr.op} {rhs};\\n"',
         '        return f"{lhs} {\'=\' if lhs.startswith(\'A[\') else expr.op} {rhs};\\n"', 1)], 100),
    ("licm-temp-not-zeroed", "C07", "K-", [
        ("ffcx/codegeneration/optimizer.py", "pre_loop.append(L.ArrayDecl(temp, size, [0]))",
         "pre_loop.append(L.ArrayDecl(temp, size))", 1),
        ("ffcx/codegeneration/optimizer.py",
         "L.Assign(\n                    L.ArrayAccess(temp, [outer_loop.index]), L.Product(hoist_candidates)",
         "L.AssignAdd(\n                    L.ArrayAccess(temp, [outer_loop.index]), L.Product(hoist_candidates)", 1)], 200),
    ("tables-numbered-from-set", "C12", "G-TEXT", [
        ("ffcx/ir/elementtables.py", "list(dict.fromkeys(ufl.algorithms.analysis.extract_sub_elements(all_elements)))",
         "set(ufl.algorithms.analysis.extract_sub_elements(all_elements))", 1)], 64),
    ("J-symbol-from-ufl_id", "C12", "G-TEXT", [
        ("ffcx/codegeneration/symbols.py", "n = self.domain_numbering.setdefault(domain, len(self.domain_numbering))",
         "n = domain.ufl_id()", 1)], 64),
    ("signature-drops-scalar-type", "C13", "N-SEP", [
        (JIT, "return str(sorted(options.items()))",
         'return str(sorted((k, v) for k, v in options.items() if k != "scalar_type"))', 1)], 32),
    ("signature-drops-compile-args", "C13", "N-SEP", [
        (JIT, "            str(cffi_extra_compile_args)\n            + str(cffi_debug)\n            + str(sysconfig.get_config_var(\"CFLAGS\"))",
         "            str(cffi_debug)\n            + str(sysconfig.get_config_var(\"CFLAGS\"))", 1)], 32),
    ("signature-repr-points", "C13", "N-SEP", [
        ("ffcx/naming.py", 'object_signature += hashlib.sha1(_points.tobytes()).hexdigest()',
         "object_signature += repr(points)", 1)], 32),
]


def make_copy(edits):
    d = tempfile.mkdtemp(prefix="mutant-", dir=core.scratch_root())
    shutil.copytree(os.path.join("/repo", "ffcx"), os.path.join(d, "ffcx"),
                    ignore=shutil.ignore_patterns("__pycache__"))
    for rel, old, new, count in edits:
        p = os.path.join(d, rel)
        s = open(p).read()
        if s.count(old) != count:
            raise core.HarnessError(f"mutant edit does not apply to {rel}: {s.count(old)} occurrences of {old[:50]!r}")
        open(p, "w").write(s.replace(old, new))
    return d


def run_mutant(name, prop, expect, edits, runs):
    d = make_copy(edits)
    try:
        env = dict(os.environ, VERIF_REPO=d, VERIF_RUNS=str(runs), VERIF_TIER="quick")
        p = subprocess.run([sys.executable, os.path.join(core.VERIF, "check.py"), prop], env=env,
                           capture_output=True, text=True)
        lines = [l for l in p.stdout.splitlines() if l.startswith(("VIOLATION", "  invariant=", "HARNESS"))]
        keys = [l.split("invariant=")[1].split()[0] for l in lines if "invariant=" in l]
        ok = p.returncode == 1 and any(k.startswith(expect) for k in keys)
        return ok, p.returncode, keys, lines[:6]
    finally:
        shutil.rmtree(d, ignore_errors=True)


def main(args):
    if not args or args[0] == "list":
        for m in MUTANTS:
            print(m[0], m[1], m[2])
        return 0
    if args[0] == "sensitivity":
        want = set(args[1:])
        bad = 0
        for name, prop, expect, edits, runs in MUTANTS:
            if want and name not in want:
                continue
            try:
                ok, rc, keys, lines = run_mutant(name, prop, expect, edits, runs)
            except core.HarnessError as e:
                print(f"SENSITIVITY {name}: cannot apply ({e})")
                bad += 1
                continue
            print(f"SENSITIVITY {name} [{prop}] expect {expect}*: " + ("DETECTED" if ok else "MISSED")
                  + f" rc={rc} keys={keys}", flush=True)
            if not ok:
                bad += 1
                for l in lines:
                    print("    " + l)
        return 1 if bad else 0
    if args[0] == "determinism":
        bad = 0
        for prop in ("C07", "C12", "C13", "C14", "C15"):
            outs = []
            for hs, workers in (("0", "16"), ("7", "5")):
                env = dict(os.environ, VERIF_HARNESS_HASHSEED=hs, VERIF_WORKERS=workers, VERIF_RUNS="48",
                           VERIF_DIGESTS=os.path.join(core.scratch_root(), f"dig-{prop}-{hs}.json"))
                p = subprocess.run([sys.executable, os.path.join(core.VERIF, "check.py"), prop], env=env,
                                   capture_output=True, text=True)
                try:
                    outs.append(open(env["VERIF_DIGESTS"]).read())
                except OSError:
                    outs.append(f"missing rc={p.returncode} {p.stdout[-300:]}")
            same = outs[0] == outs[1] and not outs[0].startswith("missing")
            print(f"DETERMINISM {prop}: " + ("identical run digests" if same else "DIFFERENT"), flush=True)
            bad += 0 if same else 1
        return 1 if bad else 0
    print(__doc__)
    return 2
