"""kernsim driver (C07): generated kernels under a seeded thread scheduler.

Per request: the current tree generates C, clang compiles it unchanged with sanitizer-coverage
load/store callbacks, the callbacks resolve into build/libsimrt.so (simulated threads +
memory seam).  Oracles: K-BITS (bitwise equal to a pristine single-call reference on a fresh
copy of the module), K-IN (inputs unchanged), K-MEM (every access inside the job's own A /
inputs / stack or read-only module data), K-ADD (A <- A + T independent of A's contents).
"""

from __future__ import annotations

import ctypes
import hashlib
import json
import os
import shutil
import subprocess
import sys
import time
from collections import Counter, defaultdict

import numpy as np

from sim import core
from sim import requests as R

LIBSIMRT = os.path.join(core.BUILD_DIR, "libsimrt.so")
MAXJOBS, MAXVIOL = 8, 16
NSETS, NA0 = 4, 2  # input sets x initial-A variants per kernel
VKIND = {1: "unknown-address(red zone or foreign memory)", 2: "other-job's-memory",
         3: "store-into-input", 4: "mutable-static-storage", 5: "step-cap",
         6: "hardware fault (SIGSEGV/SIGBUS/SIGFPE/SIGILL) inside the kernel"}
POLICIES = ["seq", "random", "rr", "pct"]


class Region(ctypes.Structure):
    _fields_ = [("lo", ctypes.c_uint64), ("hi", ctypes.c_uint64), ("owner", ctypes.c_int),
                ("writable", ctypes.c_int), ("kind", ctypes.c_int)]


class JobDesc(ctypes.Structure):
    _fields_ = [(n, ctypes.c_uint64) for n in ("fn", "A", "w", "c", "x", "ent", "perm", "custom")]


class Viol(ctypes.Structure):
    _fields_ = [("job", ctypes.c_int32), ("kind", ctypes.c_int32), ("is_store", ctypes.c_int32),
                ("size", ctypes.c_int32), ("addr", ctypes.c_uint64), ("pc", ctypes.c_uint64),
                ("region_lo", ctypes.c_uint64), ("region_kind", ctypes.c_int32),
                ("region_owner", ctypes.c_int32)]


class Result(ctypes.Structure):
    _fields_ = [("accesses", ctypes.c_uint64), ("switches", ctypes.c_uint64), ("digest", ctypes.c_uint64),
                ("steps_at_cap", ctypes.c_uint64), ("per_job", ctypes.c_uint64 * MAXJOBS),
                ("nviol", ctypes.c_int32), ("stepcap_hit", ctypes.c_int32), ("viol", Viol * MAXVIOL),
                ("probe_switch_on_A", ctypes.c_uint64), ("probe_switch_on_stack", ctypes.c_uint64),
                ("probe_switch_on_table", ctypes.c_uint64), ("probe_switch_on_input", ctypes.c_uint64),
                ("probe_concurrent_inside", ctypes.c_uint64), ("probe_resumed_after_two", ctypes.c_uint64),
                ("probe_max_inside", ctypes.c_uint64), ("pc_guards", ctypes.c_uint64),
                ("max_stack_used", ctypes.c_uint64), ("fault_signal", ctypes.c_int32), ("pad", ctypes.c_int32)]


_RT = None


def rt():
    global _RT
    if _RT is None:
        src = os.path.join(os.path.dirname(os.path.abspath(__file__)), "simrt.c")
        if not os.path.exists(LIBSIMRT) or os.path.getmtime(LIBSIMRT) < os.path.getmtime(src):
            os.makedirs(core.BUILD_DIR, exist_ok=True)
            tmp = LIBSIMRT + f".{os.getpid()}"
            p = subprocess.run(["cc", "-O2", "-g", "-shared", "-fPIC", "-o", tmp, src, "-ldl"],
                               capture_output=True, text=True)
            if p.returncode != 0:
                raise core.HarnessError(f"cannot build {LIBSIMRT}: {p.stderr[-800:]}")
            os.replace(tmp, LIBSIMRT)
        _RT = ctypes.CDLL(LIBSIMRT, mode=ctypes.RTLD_GLOBAL)
        _RT.sim_run_batch.argtypes = [ctypes.c_int, ctypes.POINTER(JobDesc), ctypes.c_int, ctypes.c_uint64,
                                      ctypes.c_uint64, ctypes.c_uint64, ctypes.c_uint64, ctypes.c_uint64,
                                      ctypes.POINTER(Result)]
        _RT.sim_set_regions.argtypes = [ctypes.c_int, ctypes.POINTER(Region)]
        _RT.sim_set_module_regions.argtypes = [ctypes.c_int, ctypes.POINTER(Region)]
        _RT.sim_symbolize.argtypes = [ctypes.c_uint64, ctypes.c_char_p, ctypes.c_int]
        _RT.sim_sizeof_result.restype = ctypes.c_uint64
        if _RT.sim_sizeof_result() != ctypes.sizeof(Result):
            raise core.HarnessError("simrt ABI mismatch: rebuild build/libsimrt.so")
        _RT.sim_init(ctypes.c_uint64(1 << 20))
    return _RT


# --------------------------------------------------------------------------------------
# building the module under test


FACETS = {"interval": 2, "triangle": 3, "quadrilateral": 4, "tetrahedron": 4, "hexahedron": 6, "prism": 5}
VERTS = {"interval": 2, "triangle": 3, "quadrilateral": 4, "tetrahedron": 4, "hexahedron": 8, "prism": 6}
DTYPES = {"float64": (np.float64, np.float64), "float32": (np.float32, np.float32),
          "complex128": (np.complex128, np.float64), "complex64": (np.complex64, np.float32)}


def build_request(name, workdir, opt="-O2"):
    """Generate + compile one request.  -> dict(meta) ; raises HarnessError on build failure."""
    core.use_repo()
    import ufl

    import ffcx.codegeneration
    import ffcx.compiler
    import ffcx.naming
    import ffcx.options

    req = R.get(name)
    objs, ns = req.build()
    opts = ffcx.options.get_options(req.options)
    scalar = str(opts["scalar_type"])
    prefix = "ks"
    code, suffixes = ffcx.compiler.compile_ufl_objects(list(objs), opts, namespace=prefix)
    d = os.path.join(workdir, hashlib.sha1((name + opt).encode()).hexdigest()[:12])
    os.makedirs(d, exist_ok=True)
    hfile, cfile = os.path.join(d, "ks.h"), os.path.join(d, "ks.c")
    with open(hfile, "w") as f:
        f.write(code[0])
    with open(cfile, "w") as f:
        f.write(code[1])
    so = os.path.join(d, "ks.so")
    cmd = ["clang", "-std=c17", opt, "-fPIC", "-shared",
           "-fsanitize-coverage=trace-pc-guard,trace-loads,trace-stores",
           "-I", ffcx.codegeneration.get_include_path(), cfile, "-o", so, "-lm"]
    p = subprocess.run(cmd, capture_output=True, text=True)
    if p.returncode != 0:
        raise core.HarnessError(f"clang failed for {name}: {p.stderr[-1500:]}")
    meta = {"name": name, "so": so, "dir": d, "scalar": scalar, "kind": req.kind, "opt": opt,
            "src_sha": hashlib.sha256(code[1].encode()).hexdigest()[:16], "kernels": []}
    # ---- extents from the UFL objects (the UFCx contract), not from FFCx's own sizes --------
    if req.kind == "forms":
        for i, form in enumerate(objs):
            fname = ffcx.naming.form_name(form, i, prefix)
            domain = form.ufl_domains()[0]
            cell = domain.ufl_cell().cellname
            cel = domain.ufl_coordinate_element()
            nx = cel.dim // cel.block_size if hasattr(cel, "block_size") else cel.dim
            argdims = [a.ufl_function_space().ufl_element().dim for a in form.arguments()]
            wdims = [c.ufl_function_space().ufl_element().dim for c in form.coefficients()]
            csize = int(sum(int(np.prod(c.ufl_shape)) if c.ufl_shape else 1 for c in form.constants()))
            meta["kernels"].append({"object": fname, "type": "form", "cell": cell, "nx": int(nx),
                                    "argdims": [int(a) for a in argdims], "wsize": int(sum(wdims)),
                                    "csize": csize, "geom": _geometry(cel)})
    else:
        for (expr, pts) in objs:
            ename = ffcx.naming.expression_name((expr, pts), prefix)
            domain = ufl.domain.extract_unique_domain(expr)
            cell = domain.ufl_cell().cellname
            cel = domain.ufl_coordinate_element()
            nx = cel.dim // cel.block_size if hasattr(cel, "block_size") else cel.dim
            args = ufl.algorithms.analysis.extract_arguments(expr)
            coeffs = ufl.algorithms.extract_coefficients(expr)
            consts = ufl.algorithms.analysis.extract_constants(expr)
            argdims = [a.ufl_function_space().ufl_element().dim for a in args]
            wdims = [c.ufl_function_space().ufl_element().dim for c in coeffs]
            csize = int(sum(int(np.prod(c.ufl_shape)) if c.ufl_shape else 1 for c in consts))
            vsize = int(np.prod(expr.ufl_shape)) if expr.ufl_shape else 1
            meta["kernels"].append({"object": ename, "type": "expression", "cell": cell, "nx": int(nx),
                                    "argdims": [int(a) for a in argdims], "wsize": int(sum(wdims)),
                                    "csize": csize, "npoints": int(np.asarray(pts).shape[0]), "vsize": vsize,
                                    "ptdim": int(np.asarray(pts).shape[1]), "geom": _geometry(cel)})
    with open(os.path.join(d, "meta.json"), "w") as f:
        json.dump(meta, f)
    return meta


def _geometry(cel):
    """Reference positions of the coordinate dofs, (n, 3) padded."""
    pts = np.asarray(cel.basix_element.points, dtype=np.float64)
    out = np.zeros((pts.shape[0], 3))
    out[:, : pts.shape[1]] = pts
    return out.tolist()


# --------------------------------------------------------------------------------------
# a loaded module instance


_CDEF_DONE = {}


def _ffi(scalar):
    import cffi

    import ffcx.codegeneration.jit as jit

    if scalar not in _CDEF_DONE:
        ffi = cffi.FFI()
        ffi.cdef(jit.UFC_HEADER_DECL.format(np.dtype(scalar).name) + jit.UFC_INTEGRAL_DECL + jit.UFC_FORM_DECL
                 + jit.UFC_EXPRESSION_DECL)
        _CDEF_DONE[scalar] = ffi
    return _CDEF_DONE[scalar]


class Module:
    """One dlopen'ed instance (own statics) of a built request."""

    def __init__(self, meta, path):
        rt()
        self.meta = meta
        self.path = path
        ffi = _ffi(meta["scalar"])
        self.ffi = ffi
        self.handle = ctypes.CDLL(path)
        self.kernels = []  # dict(fn, itype, spec, needs_perm, domain)
        scalar = meta["scalar"]
        for k in meta["kernels"]:
            if k["type"] == "form":
                form = ffi.cast("ufcx_form *", self.lib_sym(k["object"]))
                offs = form.form_integral_offsets
                for itype in range(5):
                    for j in range(offs[itype], offs[itype + 1]):
                        integ = form.form_integrals[j]
                        fn = int(ffi.cast("uintptr_t", getattr(integ, "tabulate_tensor_" + scalar)))
                        if fn:
                            self.kernels.append({"fn": fn, "itype": itype, "spec": k, "domain": int(integ.domain),
                                                 "needs_perm": bool(integ.needs_facet_permutations),
                                                 "label": f"{k['object'][:14]}/t{itype}/{j}"})
            else:
                e = ffi.cast("ufcx_expression *", self.lib_sym(k["object"]))
                fn = int(ffi.cast("uintptr_t", getattr(e, "tabulate_tensor_" + scalar)))
                itype = 0 if e.entity_dimension == {"interval": 1, "triangle": 2, "quadrilateral": 2,
                                                    "tetrahedron": 3, "hexahedron": 3, "prism": 3}[k["cell"]] else 1
                self.kernels.append({"fn": fn, "itype": itype, "spec": k, "domain": 0, "needs_perm": False,
                                     "label": f"{k['object'][:14]}/expr"})
        self.regions = self._module_regions()

    def lib_sym(self, name):
        return ctypes.addressof(ctypes.c_char.in_dll(self.handle, name))

    def _module_regions(self):
        out = []
        real = os.path.realpath(self.path)
        last_hi = None
        with open("/proc/self/maps") as f:
            for line in f:
                parts = line.split()
                lo, hi = (int(x, 16) for x in parts[0].split("-"))
                perms = parts[1]
                path = parts[5] if len(parts) > 5 else ""
                if path and os.path.realpath(path) == real:
                    out.append((lo, hi, 1 if "w" in perms else 0))
                    last_hi = hi
                elif not path and last_hi is not None and lo == last_hi and "w" in perms:
                    out.append((lo, hi, 1))  # .bss continuation
                    last_hi = hi
                else:
                    if last_hi is not None and not path:
                        pass
                    last_hi = None if path else last_hi
        return out

    def activate(self):
        arr = (Region * len(self.regions))()
        for i, (lo, hi, w) in enumerate(self.regions):
            arr[i] = Region(lo, hi, -1, 0, 5 if w else 4)
        rt().sim_set_module_regions(len(self.regions), arr)


def fresh_copy(meta, tag):
    """A separate file => a separate dlopen handle => untouched static storage."""
    dst = os.path.join(meta["dir"], f"ks_{tag}.so")
    shutil.copyfile(meta["so"], dst)
    return dst


# --------------------------------------------------------------------------------------
# inputs: a small palette per kernel, well-conditioned by construction


def kernel_shapes(kern):
    spec, itype = kern["spec"], kern["itype"]
    mult = 2 if itype == 2 else 1
    if spec["type"] == "form":
        asize = 1
        for dsz in spec["argdims"]:
            asize *= dsz * mult
    else:
        asize = spec["npoints"] * spec["vsize"]
        for dsz in spec["argdims"]:
            asize *= dsz
    return {"A": max(asize, 1), "w": spec["wsize"] * mult, "c": spec["csize"], "x": 3 * spec["nx"] * mult,
            "ent": 2, "perm": 2}


def entity_choices(kern):
    cell, itype, dom = kern["spec"]["cell"], kern["itype"], kern["domain"]
    if itype == 0:
        return [0]
    if itype in (1, 2):
        if cell == "prism":
            # basix cell type codes: triangle=2, quadrilateral=3
            return [0, 4] if dom == 2 else [1, 2, 3]
        return list(range(FACETS[cell]))
    if itype == 3:
        return list(range(VERTS[cell]))
    return [0]


def make_palette(kern, scalar, seed):
    """NSETS input sets; each: w, c, x, ent, perm arrays + NA0 initial A's."""
    rng = np.random.RandomState(seed % (2**31))
    sdt, rdt = DTYPES[scalar]
    sh = kernel_shapes(kern)
    geom = np.asarray(kern["spec"]["geom"], dtype=np.float64)
    mult = 2 if kern["itype"] == 2 else 1
    ents = entity_choices(kern)
    sets = []
    for s in range(NSETS):
        def rnd(n):
            v = 0.5 + rng.rand(n)
            if np.issubdtype(sdt, np.complexfloating):
                v = v + 1j * (rng.rand(n) - 0.5)
            return np.ascontiguousarray(v.astype(sdt))

        xs = []
        for _ in range(mult):
            g = geom + 0.15 * (rng.rand(*geom.shape) - 0.5) * (geom.shape[0] > 0)
            g[:, :] = np.where(np.abs(geom).sum(axis=0, keepdims=True) > 0, g, geom)  # keep unused dims 0
            xs.append(g.reshape(-1))
        x = np.ascontiguousarray(np.concatenate(xs).astype(rdt))
        ent = np.array([ents[rng.randint(len(ents))], ents[rng.randint(len(ents))]], dtype=np.intc)
        perm = np.array([rng.randint(0, 2), rng.randint(0, 2)], dtype=np.uint8)
        if not kern["needs_perm"]:
            perm[:] = 0
        elif kern["spec"]["cell"] in ("tetrahedron",):
            perm = np.array([rng.randint(0, 6), rng.randint(0, 6)], dtype=np.uint8)
        elif kern["spec"]["cell"] in ("hexahedron",):
            perm = np.array([rng.randint(0, 8), rng.randint(0, 8)], dtype=np.uint8)
        a0 = [np.zeros(sh["A"], dtype=sdt)]
        for _ in range(NA0 - 1):
            a0.append(rnd(sh["A"]) * 3.0 - 2.0)
        sets.append({"w": rnd(sh["w"]), "c": rnd(sh["c"]), "x": x, "ent": ent, "perm": perm, "A0": a0})
    return sets


# --------------------------------------------------------------------------------------
# arena: all job buffers in one block with poisoned red zones


class Arena:
    RED = 256

    def __init__(self, size=1 << 22):
        self.buf = np.zeros(size, dtype=np.uint8)
        self.base = self.buf.ctypes.data
        self.reset(0)

    def reset(self, fill):
        self.off = self.RED
        self.fill = fill

    def alloc(self, arr, skew=0):
        """``skew``: the buffer starts that many bytes past a 64-byte boundary (UFCx promises the
        alignment of the scalar type, nothing more)."""
        n = arr.nbytes
        off = ((self.off + 63) & ~63) + skew
        if off + n + self.RED > self.buf.size:
            raise core.HarnessError("kernsim arena too small")
        self.buf[off - self.RED: off] = self.fill
        self.buf[off: off + n] = arr.view(np.uint8).reshape(-1)
        self.buf[off + n: off + n + self.RED] = self.fill
        self.off = off + n + self.RED
        return off, n

    def view(self, off, n, dtype):
        return self.buf[off: off + n].view(dtype)


# --------------------------------------------------------------------------------------
# running batches


_CUSTOM = np.full(64, 0xC3, dtype=np.uint8)


def run_batch(module, kerns_sets, policy, param, est, seed, poison, arena, fill, maxsteps=50_000_000):
    """kerns_sets: list of (kernel, input set, a0 index).  -> (result struct, list of A arrays,
    input-unchanged flags)."""
    r = rt()
    module.activate()
    arena.reset(fill)
    n = len(kerns_sets)
    descs = (JobDesc * n)()
    regs = []
    handles = []
    for j, (kern, iset, ai) in enumerate(kerns_sets):
        locs = {}
        # every other job gets buffers that are aligned for their scalar type only
        skew = (lambda a: int(np.dtype(a.dtype).alignment if not np.issubdtype(a.dtype, np.complexfloating)
                              else a.real.dtype.alignment)) if j % 2 else (lambda a: 0)
        for key in ("w", "c", "x", "ent", "perm"):
            locs[key] = arena.alloc(iset[key], skew(iset[key]) if key in ("w", "c", "x") else 0)
        locs["A"] = arena.alloc(iset["A0"][ai], skew(iset["A0"][ai]))
        # custom_data: opaque to generated kernels; every other job gets a (read-only, poisoned)
        # block, the others NULL - the result may depend on neither
        if j % 2:
            locs["custom"] = arena.alloc(_CUSTOM)
        handles.append(locs)
        for key, (off, nb) in locs.items():
            if nb:
                regs.append(Region(arena.base + off, arena.base + off + nb, j, 1 if key == "A" else 0,
                                   1 if key == "A" else 2))
        descs[j] = JobDesc(kern["fn"], *(arena.base + locs[k][0] for k in ("A", "w", "c", "x", "ent", "perm")),
                           (arena.base + locs["custom"][0]) if "custom" in locs else 0)
    arr = (Region * len(regs))(*regs)
    r.sim_set_regions(len(regs), arr)
    res = Result()
    pol = POLICIES.index(policy)
    rc = r.sim_run_batch(n, descs, pol, int(param), int(est), int(seed) & (2**63 - 1), int(poison) & (2**63 - 1),
                         int(maxsteps), ctypes.byref(res))
    if rc != 0:
        raise core.HarnessError(f"sim_run_batch rc={rc}")
    outs, unchanged = [], []
    for j, (kern, iset, ai) in enumerate(kerns_sets):
        locs = handles[j]
        off, nb = locs["A"]
        outs.append(arena.buf[off: off + nb].copy())
        ok = True
        for key in ("w", "c", "x", "ent", "perm"):
            off, nb = locs[key]
            if nb and not np.array_equal(arena.buf[off: off + nb], iset[key].view(np.uint8).reshape(-1)):
                ok = False
        if "custom" in locs:
            off, nb = locs["custom"]
            if not np.array_equal(arena.buf[off: off + nb], _CUSTOM):
                ok = False
        unchanged.append(ok)
    return res, outs, unchanged


def describe_viol(v):
    buf = ctypes.create_string_buffer(200)
    rt().sim_symbolize(v.pc, buf, 200)
    rk = {0: "none", 1: "A", 2: "input", 3: "stack", 4: "module-ro", 5: "module-writable"}.get(v.region_kind, "?")
    return (f"{'store' if v.is_store else 'load'}{v.size} by job {v.job} at {buf.value.decode()} -> "
            f"{VKIND.get(v.kind, v.kind)} (region {rk}, owner {v.region_owner})")


# --------------------------------------------------------------------------------------
# per-request work: references + seeded runs  (executed inside a worker)


def references(meta, palettes_seed):
    """K-BITS references and K-ADD check, each reference on a fresh copy of the module."""
    ref = {}
    viol = []
    est = {}
    arena = Arena()
    nref = 0
    first = Module(meta, fresh_copy(meta, "r0"))
    palettes = [make_palette(k, meta["scalar"], palettes_seed + 17 * i) for i, k in enumerate(first.kernels)]
    for ki in range(len(first.kernels)):
        for si in range(NSETS):
            for ai in range(NA0):
                m = Module(meta, fresh_copy(meta, f"r{ki}_{si}_{ai}"))
                kern = m.kernels[ki]
                res, outs, unchanged = run_batch(m, [(kern, palettes[ki][si], ai)], "seq", 0, 0, 1,
                                                 0xA5A5A5A5 + nref, arena, 0x7F)
                nref += 1
                ref[(ki, si, ai)] = outs[0]
                est[ki] = max(est.get(ki, 0), int(res.accesses))
                if res.nviol:
                    viol.append(("K-MEM", f"{meta['name']} kernel {kern['label']} alone: "
                                          + describe_viol(res.viol[0])))
                if not unchanged[0]:
                    viol.append(("K-IN", f"{meta['name']} kernel {kern['label']}: an input buffer was modified"))
                try:
                    os.unlink(m.path)
                except OSError:
                    pass
            # K-ADD: (A1 - A0) must not depend on A0
            sdt = DTYPES[meta["scalar"]][0]
            t0 = ref[(ki, si, 0)].view(sdt) - palettes[ki][si]["A0"][0]
            for ai in range(1, NA0):
                t1 = ref[(ki, si, ai)].view(sdt) - palettes[ki][si]["A0"][ai]
                scale = 1.0 + float(np.max(np.abs(t0))) if t0.size else 1.0
                tol = (1e-9 if sdt in (np.float64, np.complex128) else 2e-3) * scale
                err = float(np.max(np.abs(t1 - t0))) if t0.size else 0.0
                if not np.isfinite(err) or err > tol:
                    viol.append(("K-ADD", f"{meta['name']} kernel {first.kernels[ki]['label']} input set {si}: "
                                          f"A1-A0 differs by {err:.3e} between A0=0 and a random A0 "
                                          f"(tolerance {tol:.1e}): the kernel does not compute A <- A + T"))
            if t0.size and not np.all(np.isfinite(t0)):
                viol.append(("K-FINITE", f"{meta['name']} kernel {first.kernels[ki]['label']}: non-finite T"))
    return first, palettes, ref, est, viol, nref


def gen_run(seed, nk, thorough):
    """Explicit scenario of one run: a history of batches on one module instance."""
    rng = core.rng_for(seed, "kern")
    nb = rng.choice([1, 2, 2, 3, 4])
    maxjobs = 4
    batches = []
    for _ in range(nb):
        nj = rng.choice([1, 2, 2, 3, 3, 4][: 6 if maxjobs >= 4 else 3])
        same = rng.random() < 0.7
        k0 = rng.randrange(nk)
        jobs = []
        for _ in range(nj):
            ki = k0 if same else rng.randrange(nk)
            jobs.append([ki, rng.randrange(NSETS), rng.randrange(NA0)])
        pol = rng.choice(["random", "random", "random", "pct", "pct", "rr", "seq"])
        if pol == "random":
            param = int(rng.choice([0.003, 0.03, 0.3]) * 2**32)
        elif pol == "pct":
            param = rng.choice([1, 2, 3])
        elif pol == "rr":
            param = rng.choice([1, 7, 64])
        else:
            param = 0
        batches.append({"jobs": jobs, "policy": pol, "param": param, "seed": rng.randrange(1, 2**40),
                        "poison": rng.randrange(1, 2**40), "fill": rng.randrange(1, 255)})
    return {"seed": seed, "batches": batches}


def exec_run(module, palettes, ref, est, scn, arena):
    """-> (violations, stats, digest)."""
    viol = []
    st = Counter()
    dig = hashlib.sha256()
    for bi, b in enumerate(scn["batches"]):
        ks = [(module.kernels[ki], palettes[ki][si], ai) for ki, si, ai in b["jobs"]]
        e = sum(est.get(ki, 1000) for ki, _, _ in b["jobs"])
        res, outs, unchanged = run_batch(module, ks, b["policy"], b["param"], e, b["seed"], b["poison"], arena,
                                         b["fill"])
        st["batches"] += 1
        st["jobs"] += len(ks)
        st["accesses"] += int(res.accesses)
        st["switches"] += int(res.switches)
        st["max_kernel_stack_bytes"] = max(st["max_kernel_stack_bytes"], int(res.max_stack_used))
        if len(ks) > 1:
            st["probe_jobs_with_minimally_aligned_buffers"] += len(ks) // 2
        st["policy_" + b["policy"]] += 1
        for f in ("probe_switch_on_A", "probe_switch_on_stack", "probe_switch_on_table", "probe_switch_on_input",
                  "probe_concurrent_inside", "probe_resumed_after_two"):
            st[f] += int(getattr(res, f))
        if bi >= 1:
            st["probe_later_batch_on_same_module"] += 1
        if any(k["itype"] == 2 and int(s["perm"].max()) > 0 for k, s, _ in ks):
            st["probe_interior_facet_nonzero_perm"] += 1
        dig.update(f"{bi}:{res.digest}:{res.switches}:{res.accesses}".encode())
        if res.switches and len(ks) > 1:
            st["nontrivial_batches"] += 1
        if res.stepcap_hit:
            viol.append(("K-STEPS", f"batch {bi}: step cap hit after {res.steps_at_cap} accesses"))
        for i in range(min(res.nviol, MAXVIOL)):
            viol.append(("K-MEM", f"batch {bi} ({b['policy']}): " + describe_viol(res.viol[i])))
            break
        for j, (ki, si, ai) in enumerate(b["jobs"]):
            if not unchanged[j]:
                viol.append(("K-IN", f"batch {bi} job {j} kernel {module.kernels[ki]['label']}: input modified"))
            if not np.array_equal(outs[j], ref[(ki, si, ai)]):
                sdt = DTYPES[module.meta["scalar"]][0]
                dmax = float(np.nanmax(np.abs(outs[j].view(sdt) - ref[(ki, si, ai)].view(sdt))))
                viol.append(("K-BITS", f"batch {bi} ({b['policy']}, {len(ks)} jobs, {res.switches} switches) job {j} "
                                       f"kernel {module.kernels[ki]['label']} set {si} A0#{ai}: result differs from "
                                       f"the pristine sequential reference (max abs diff {dmax:.3e})"))
    return viol, st, dig.hexdigest()[:24]


def _request_job(a):
    """Worker: everything for one (request, opt level)."""
    name, opt, base, nruns, thorough, workroot, explicit = a
    t0 = time.time()
    meta = build_request(name, workroot, opt)
    t_build = time.time() - t0
    pal_seed = int(hashlib.sha1(f"{base}/{name}".encode()).hexdigest()[:8], 16)
    first, palettes, ref, est, viol, nref = references(meta, pal_seed)
    out = {"name": name, "opt": opt, "build_s": round(t_build, 2), "nref": nref, "nkernels": len(first.kernels),
           "viol": [{"key": k, "detail": d, "scn": None} for k, d in viol], "stats": Counter(), "digests": [],
           "samples": [], "src_sha": meta["src_sha"], "accesses_per_kernel": est}
    module = Module(meta, fresh_copy(meta, "mut"))  # the instance that accumulates history
    arena = Arena()
    # budget: the same number of checked memory accesses per request, not the same number of runs
    per_run = max(1, sum(est.values()) // max(1, len(est))) * 6  # ~2.5 batches x ~2.5 jobs
    budget = int(os.environ.get("VERIF_ACCESS_BUDGET", 0)) or (3_000_000_000 if thorough else 800_000_000)
    nruns = max(40, min(nruns, budget // per_run))
    scns = explicit if explicit is not None else [
        gen_run(core.run_seed(base, i) * 1009 + int(hashlib.sha1(name.encode()).hexdigest()[:6], 16), len(first.kernels),
                thorough) for i in range(nruns)]
    seen = set()
    for scn in scns:
        v, st, dg = exec_run(module, palettes, ref, est, scn, arena)
        mx = st.pop("max_kernel_stack_bytes", 0)
        out["stats"].update(st)
        out["stats"]["max_kernel_stack_bytes"] = max(out["stats"].get("max_kernel_stack_bytes", 0), mx)
        out["digests"].append(dg)
        if len(out["samples"]) < 2:
            out["samples"].append(scn)
        for k, dsc in v:
            if k not in seen or explicit is not None:
                seen.add(k)
                out["viol"].append({"key": k, "detail": f"{name} {opt}: " + dsc, "scn": scn})
    out["wall"] = time.time() - t0
    out["stats"] = dict(out["stats"])
    shutil.rmtree(meta["dir"], ignore_errors=True)
    return out


# --------------------------------------------------------------------------------------
# minimisation / replay


def _replay_job(a):
    name, opt, base, scn, workroot = a
    return _request_job((name, opt, base, 0, False, workroot, [scn] if scn else []))


def minimise(name, opt, base, scn, key, workroot):
    """Greedy: drop batches, drop jobs, simplify policies, keeping the same invariant id.
    Every candidate is run in a fresh worker process (fresh module instance)."""
    def fails(c):
        out = core.pmap(_replay_job, [(name, opt, base, c, workroot)], workers=2)[0]
        return any(v["key"] == key for v in out["viol"])

    cur = json.loads(json.dumps(scn))
    budget = 25
    progress = True
    while progress and budget > 0:
        progress = False
        cands = []
        for i in range(len(cur["batches"])):
            if len(cur["batches"]) > 1:
                c = json.loads(json.dumps(cur))
                del c["batches"][i]
                cands.append(c)
        for i, b in enumerate(cur["batches"]):
            for j in range(len(b["jobs"])):
                if len(b["jobs"]) > 1:
                    c = json.loads(json.dumps(cur))
                    del c["batches"][i]["jobs"][j]
                    cands.append(c)
            if b["policy"] != "seq":
                c = json.loads(json.dumps(cur))
                c["batches"][i]["policy"] = "seq"
                c["batches"][i]["param"] = 0
                cands.append(c)
        for c in cands:
            budget -= 1
            if fails(c):
                cur = c
                progress = True
                break
            if budget <= 0:
                break
    return cur


def replay(path):
    rp = core.load_replay(path)
    workroot = core.scratch_dir("kern-")
    out = core.pmap(_replay_job, [(rp["request"], rp["opt"], rp["base"], rp.get("scenario"), workroot)],
                    workers=2)[0]
    hit = [v for v in out["viol"] if v["key"] == rp["invariant"]]
    dg = out["digests"][0] if out["digests"] else None
    print(f"replay {path}: invariant {rp['invariant']} " + ("REPRODUCED" if hit else "not reproduced")
          + (f"; schedule digest {'identical' if dg == rp.get('digest') else 'differs'}" if rp.get("scenario") else ""))
    for v in hit[:1]:
        print("  " + v["detail"])
    if hit:
        print(f"VIOLATION property={rp['property']} replay={path}")
    return 1 if hit else 0


# --------------------------------------------------------------------------------------
# the check


def _preimport():
    """Import (and exercise once) everything the workers need before they are forked: sixteen
    concurrent imports of ffcx/basix/ufl cost minutes in this sandbox, a fork costs nothing."""
    core.use_repo()
    import basix.ufl  # noqa: F401
    import cffi  # noqa: F401
    import ufl  # noqa: F401

    import ffcx.codegeneration.jit  # noqa: F401
    import ffcx.compiler
    import ffcx.naming  # noqa: F401
    import ffcx.options

    req = R.get("mass_p1_interval")
    objs, _ = req.build()
    try:  # a warm-up only: if the tree under test cannot compile it, the workers will say so
        ffcx.compiler.compile_ufl_objects(list(objs), ffcx.options.get_options({}), namespace="warm")
    except Exception:
        pass
    _ffi("float64")


def kernel_requests(thorough):
    names = [r.name for r in R.by_tag("kern")]
    if not thorough:
        names = [n for n in names if n not in ("dg_jump_hex", "hyperelastic_tet") and "slow" not in R.get(n).tags]
    return names


def run_check(prop, tier, base, replay_path=None):
    if replay_path:
        return replay(replay_path)
    t0 = time.time()
    thorough = tier == "thorough"
    verd = core.Verdicts(prop)
    names = kernel_requests(thorough)
    if os.environ.get("VERIF_ONLY"):  # debugging aid: restrict the pool (evidence is not written)
        names = [n for n in names if n in os.environ["VERIF_ONLY"].split(",")]
        os.environ["VERIF_NO_EVIDENCE"] = "1"
    nruns = int(os.environ.get("VERIF_RUNS", 0)) or (20000 if thorough else 10000)
    workroot = core.scratch_dir("kern-")
    opts = ["-O2", "-O1", "-O0"] if thorough else ["-O2", "-O1"]
    jobs = [(n, o, base, nruns, thorough, workroot, None) for n in names for o in opts]
    try:
        rt()
        _preimport()
        results = core.pmap(_request_job, jobs, wall_cap=3000)
        # determinism: two requests again, digests must match
        det_jobs = jobs[:2]
        det = core.pmap(_request_job, [(n, o, b, min(nr, 300), th, w, e) for n, o, b, nr, th, w, e in det_jobs],
                        wall_cap=3000)
        det2 = core.pmap(_request_job, [(n, o, b, min(nr, 300), th, w, e) for n, o, b, nr, th, w, e in det_jobs],
                         wall_cap=3000, workers=1)
    except core.HarnessError as e:
        verd.add_harness(str(e))
        return verd.finish()
    nondet = sum(1 for x, y in zip(det, det2) if x["digests"] != y["digests"])
    if nondet:
        verd.add_harness(f"determinism self-test: {nondet}/{len(det)} requests changed schedule digests on re-run")

    # one report per invariant id: the witness is the request with the cheapest kernel; the other
    # affected requests are listed in the detail (minimising every request separately costs a
    # rebuild per candidate and tells nothing new)
    bykey = defaultdict(list)
    for r in results:
        for v in r["viol"]:
            bykey[v["key"]].append((r, v))
    n = 0
    for key in sorted(bykey):
        wit = sorted(bykey[key], key=lambda rv: (sum(rv[0]["accesses_per_kernel"].values()), rv[0]["name"]))
        r, v = wit[0]
        affected = sorted({x[0]["name"] + x[0]["opt"] for x in wit})
        if verd.is_known(key):
            verd.add(key, None, "")
            continue
        scn = v["scn"]
        small = minimise(r["name"], r["opt"], base, scn, key, workroot) if scn else None
        out = core.pmap(_replay_job, [(r["name"], r["opt"], base, small, workroot)], workers=2)[0]
        hit = [x for x in out["viol"] if x["key"] == key]
        payload = {"engine": "kernsim", "property": prop, "invariant": key, "request": r["name"],
                   "opt": r["opt"], "base": base, "scenario": small, "original_scenario": scn,
                   "digest": out["digests"][0] if out["digests"] else None, "src_sha": r["src_sha"],
                   "detail": hit[0]["detail"] if hit else v["detail"], "affected_requests": affected}
        path = core.write_replay(prop, base, n, payload)
        n += 1
        if not hit:
            verd.add_harness(f"minimised scenario for {key} did not reproduce (replay {path})")
        else:
            verd.add(key, path, hit[0]["detail"] + f"\n  affected requests ({len(affected)}): "
                     + ", ".join(affected[:12]) + (" ..." if len(affected) > 12 else ""))

    core.dump_digests((r["name"] + r["opt"], hashlib.sha1("".join(r["digests"]).encode()).hexdigest())
                      for r in results)
    wall = time.time() - t0
    stats = Counter()
    for r in results:
        mx = r["stats"].pop("max_kernel_stack_bytes", 0)
        stats.update(r["stats"])
        stats["max_kernel_stack_bytes"] = max(stats.get("max_kernel_stack_bytes", 0), mx)
    digs = set()
    for r in results:
        digs.update((r["name"], r["opt"], d) for d in r["digests"])
    nruns_total = sum(len(r["digests"]) for r in results)
    probes = {k: v for k, v in stats.items() if k.startswith("probe_")}
    missing = [k for k in ("probe_switch_on_A", "probe_switch_on_stack", "probe_concurrent_inside",
                           "probe_resumed_after_two", "probe_later_batch_on_same_module") if not probes.get(k)]
    if missing:
        verd.add_harness(f"reach self-test: probes stuck at zero: {missing}")
    cov = {
        "evaluations": nruns_total,
        "distinct_nontrivial": len(digs) if stats["nontrivial_batches"] else 0,
        "rule": "one evaluation = one run: a history of 1-4 batches on one loaded module instance, each batch "
                "1-4 simulated threads (coroutines running the real clang-compiled generated kernel) "
                "interleaved at load/store granularity by a seeded policy (random p, PCT, round-robin, "
                "sequential).  distinct_nontrivial = distinct (request, opt level, digest of the switch "
                "sequences of the run); counted only if context switches between concurrent jobs occurred "
                f"({stats['nontrivial_batches']} batches had >= 1 switch with >= 2 jobs).",
        "samples": [s for r in results[:3] for s in r["samples"][:1]],
        "requests": len(names),
        "modules_built": len(results),
        "kernels": sum(r["nkernels"] for r in results),
        "reference_calls_on_fresh_module_copies": sum(r["nref"] for r in results),
        "batches": stats["batches"],
        "jobs": stats["jobs"],
        "memory_accesses_checked": stats["accesses"],
        "context_switches": stats["switches"],
        "max_kernel_stack_bytes": stats.get("max_kernel_stack_bytes", 0),
        "batches_with_switches_and_2plus_jobs": stats["nontrivial_batches"],
        "policies": {k[len("policy_"):]: v for k, v in stats.items() if k.startswith("policy_")},
        "runs_per_hour": round(nruns_total / max(wall, 1e-6) * 3600),
        "seeds_per_hour": round(nruns_total / max(wall, 1e-6) * 3600),
        "fault_kinds_fired": {"context_switch_inside_kernel": stats["switches"],
                              "stack_poison_patterns": stats["jobs"], "redzone_fill_patterns": stats["batches"],
                              "prior_calls_on_same_module(history)": stats["probe_later_batch_on_same_module"]},
        "probes": probes,
        "determinism_selftest": {"requests": len(det), "mismatches": nondet},
        "build_seconds": round(sum(r["build_s"] for r in results), 1),
        "per_module_wall_s": {r["name"] + r["opt"]: [r["build_s"], round(r["wall"], 1)] for r in results},
        "components": {
            "real": ["ffcx analysis/IR/code generation/formatting (the text under test)", "clang -O1/-O2 "
                     "compilation of the unchanged text", "the kernel machine code", "libm"],
            "stub": ["threads (coroutines on one OS thread, switch only at instrumented loads/stores)",
                     "the assembler calling the kernels (this driver)", "cffi build driver (plain clang; "
                     "same text)"],
        },
    }
    core.write_evidence(prop, tier, base, "exploration", cov,
                        ["sequentially consistent interleavings only (any access to shared writable storage is "
                         "flagged by the memory seam regardless of ordering)",
                         "inputs are well-conditioned (reference geometry perturbed <= 7.5%)",
                         "C back end only; numba kernels are outside the simulator",
                         "buffer extents are taken from the UFL objects (UFCx contract)"],
                        wall, len(verd.new))
    return verd.finish()
