/* kernsim runtime: simulated threads for generated tabulate_tensor kernels.
 *
 * The kernels are compiled by clang with
 *   -fsanitize-coverage=trace-pc-guard,trace-loads,trace-stores
 * so every load and store of the generated code calls back into this file with the address.
 * A simulated thread is a coroutine (hand-written x86-64 context switch) on its own mmap'ed
 * stack running the real kernel machine code; all coroutines live on one OS thread and a context switch happens only inside
 * a callback, when the seeded schedule says so.  The same callback is the memory seam: every
 * access is classified against the regions the driver registered (own A, own inputs, own
 * stack, read-only module data, writable module data, other jobs' buffers, anything else).
 */
#define _GNU_SOURCE
#include <dlfcn.h>
#include <setjmp.h>
#include <signal.h>
#include <stdint.h>
#include <stdio.h>
#include <stdlib.h>
#include <string.h>
#include <sys/mman.h>
#include <ucontext.h>

#define MAXJOBS 8
#define MAXREG 256
#define MAXVIOL 16
#define POISON_BYTES (192 * 1024)

enum { K_A = 1, K_INPUT = 2, K_STACK = 3, K_MOD_RO = 4, K_MOD_RW = 5 };
enum { V_UNKNOWN = 1, V_FOREIGN = 2, V_STORE_RO = 3, V_MUTABLE_STATIC = 4, V_STEPCAP = 5, V_FAULT = 6 };
enum { P_SEQ = 0, P_RANDOM = 1, P_RR = 2, P_PCT = 3 };

typedef void (*kernel_fn)(void*, const void*, const void*, const void*, const int*, const uint8_t*, void*);

typedef struct {
  uintptr_t lo, hi;
  int owner;    /* job index, -1 = shared */
  int writable; /* stores allowed for the owner */
  int kind;
} region_t;

typedef struct {
  uint64_t fn, A, w, c, x, ent, perm, custom;
} sim_job_desc;

typedef struct {
  int32_t job, kind, is_store, size;
  uint64_t addr, pc, region_lo;
  int32_t region_kind, region_owner;
} sim_viol;

typedef struct {
  uint64_t accesses, switches, digest, steps_at_cap;
  uint64_t per_job[MAXJOBS];
  int32_t nviol, stepcap_hit;
  sim_viol viol[MAXVIOL];
  uint64_t probe_switch_on_A, probe_switch_on_stack, probe_switch_on_table, probe_switch_on_input;
  uint64_t probe_concurrent_inside, probe_resumed_after_two, probe_max_inside;
  uint64_t pc_guards;
  uint64_t max_stack_used; /* deepest kernel stack access below the top of the job's stack */
  int32_t fault_signal, pad;
} sim_result;

/* Minimal x86-64 context switch (callee-saved registers + mxcsr + x87 control word).  glibc's
 * swapcontext makes a sigprocmask system call per switch, which dominated the run time. */
typedef struct {
  void* rsp;
} fctx;

__attribute__((naked, noinline)) static void switch_ctx(fctx* from, fctx* to) {
  __asm__ volatile(
      "pushq %rbp\n pushq %rbx\n pushq %r12\n pushq %r13\n pushq %r14\n pushq %r15\n"
      "subq $8, %rsp\n stmxcsr (%rsp)\n fnstcw 4(%rsp)\n"
      "movq %rsp, (%rdi)\n"
      "movq (%rsi), %rsp\n"
      "ldmxcsr (%rsp)\n fldcw 4(%rsp)\n addq $8, %rsp\n"
      "popq %r15\n popq %r14\n popq %r13\n popq %r12\n popq %rbx\n popq %rbp\n"
      "ret\n");
}

typedef struct {
  fctx fc;
  char* stack;
  size_t stack_size;
  uintptr_t stack_lo, stack_hi;
  sim_job_desc d;
  int state; /* 0 new, 1 started, 2 done */
  uint64_t accesses;
  int prio;
  uint32_t ran_since; /* bitmask of jobs that ran since this one was descheduled */
  uintptr_t min_stack;
} job_t;

static region_t regions[MAXREG];
static int nregions, nmodregions;
static region_t modregions[MAXREG];
static job_t jobs[MAXJOBS];
static int njobs, cur = -1;
static fctx sched_fc;
static sim_result* res;
static int policy;
static uint64_t rng_state, threshold, quantum, qcount, max_steps;
static uint64_t pct_points[8];
static int pct_n;
static size_t g_stack_size = 1 << 20;

static inline uint64_t rnd(void) {
  uint64_t x = rng_state;
  x ^= x << 13;
  x ^= x >> 7;
  x ^= x << 17;
  return rng_state = x;
}

static inline void mix(uint64_t v) {
  res->digest = (res->digest ^ v) * 0x100000001b3ULL;
}

static void record(int kind, uintptr_t addr, int size, int is_store, void* pc, const region_t* r) {
  if (res->nviol < MAXVIOL) {
    sim_viol* v = &res->viol[res->nviol];
    v->job = cur;
    v->kind = kind;
    v->is_store = is_store;
    v->size = size;
    v->addr = addr;
    v->pc = (uint64_t)(uintptr_t)pc;
    v->region_lo = r ? r->lo : 0;
    v->region_kind = r ? r->kind : 0;
    v->region_owner = r ? r->owner : -2;
  }
  res->nviol++;
}

static inline void yield_to_sched(int akind) {
  job_t* j = &jobs[cur];
  res->switches++;
  mix(((uint64_t)cur << 56) ^ res->accesses);
  if (akind == K_A) res->probe_switch_on_A++;
  else if (akind == K_STACK) res->probe_switch_on_stack++;
  else if (akind == K_MOD_RO) res->probe_switch_on_table++;
  else if (akind == K_INPUT) res->probe_switch_on_input++;
  switch_ctx(&j->fc, &sched_fc);
}

static inline void on_access(uintptr_t addr, int size, int is_store, void* pc) {
  if (cur < 0) return;
  job_t* j = &jobs[cur];
  res->accesses++;
  j->accesses++;
  int akind = 0;
  if (addr >= j->stack_lo && addr + size <= j->stack_hi) {
    akind = K_STACK;
    if (addr < j->min_stack) j->min_stack = addr;
  } else {
    const region_t* hit = 0;
    for (int i = 0; i < nregions; i++) {
      const region_t* r = &regions[i];
      if (addr >= r->lo && addr + size <= r->hi) {
        hit = r;
        break;
      }
    }
    if (!hit) {
      for (int i = 0; i < nmodregions; i++) {
        const region_t* r = &modregions[i];
        if (addr >= r->lo && addr + size <= r->hi) {
          hit = r;
          break;
        }
      }
    }
    if (!hit) {
      /* another job's stack? */
      for (int k = 0; k < njobs; k++)
        if (k != cur && addr >= jobs[k].stack_lo && addr + size <= jobs[k].stack_hi) {
          region_t r = {jobs[k].stack_lo, jobs[k].stack_hi, k, 1, K_STACK};
          record(V_FOREIGN, addr, size, is_store, pc, &r);
          akind = -1;
        }
      if (!akind) record(V_UNKNOWN, addr, size, is_store, pc, 0);
    } else {
      akind = hit->kind;
      if (hit->kind == K_MOD_RW)
        record(V_MUTABLE_STATIC, addr, size, is_store, pc, hit);
      else if (hit->owner != -1 && hit->owner != cur)
        record(V_FOREIGN, addr, size, is_store, pc, hit);
      else if (is_store && !hit->writable)
        record(V_STORE_RO, addr, size, is_store, pc, hit);
    }
  }
  if (res->accesses >= max_steps) {
    if (!res->stepcap_hit) {
      res->stepcap_hit = 1;
      res->steps_at_cap = res->accesses;
    }
    return; /* no more switches: let everything drain sequentially */
  }
  switch (policy) {
    case P_SEQ:
      return;
    case P_RANDOM:
      if (rnd() < threshold) yield_to_sched(akind);
      return;
    case P_RR:
      if (++qcount >= quantum) {
        qcount = 0;
        yield_to_sched(akind);
      }
      return;
    case P_PCT:
      for (int i = 0; i < pct_n; i++)
        if (pct_points[i] == res->accesses) {
          j->prio = -(int)(i + 1); /* drop below everybody */
          yield_to_sched(akind);
          return;
        }
      return;
  }
}

#define CB(n)                                                                                   \
  void __sanitizer_cov_load##n(void* a) { on_access((uintptr_t)a, n, 0, __builtin_return_address(0)); } \
  void __sanitizer_cov_store##n(void* a) { on_access((uintptr_t)a, n, 1, __builtin_return_address(0)); }
CB(1) CB(2) CB(4) CB(8) CB(16)

void __sanitizer_cov_trace_pc_guard_init(uint32_t* start, uint32_t* stop) {
  for (uint32_t* p = start; p < stop; p++) *p = 1;
}
void __sanitizer_cov_trace_pc_guard(uint32_t* guard) {
  (void)guard;
  if (cur >= 0 && res) res->pc_guards++;
}

/* A hardware fault inside a kernel (misaligned SIMD access, stack overflow into the guard page,
 * wild pointer) is a finding about the kernel, not a crash of the harness: it is recorded and
 * the batch is abandoned. */
static sigjmp_buf batch_jmp;
static volatile int batch_active;
static char* alt_stack;

static void on_fault(int sig, siginfo_t* si, void* uc_) {
  if (!batch_active || cur < 0 || !res) {
    signal(sig, SIG_DFL);
    raise(sig);
    return;
  }
  ucontext_t* uc = (ucontext_t*)uc_;
  void* pc = (void*)(uintptr_t)uc->uc_mcontext.gregs[REG_RIP];
  record(V_FAULT, (uintptr_t)si->si_addr, 0, 0, pc, 0);
  res->fault_signal = sig;
  siglongjmp(batch_jmp, 1);
}

static void tramp(int idx) {
  job_t* j = &jobs[idx];
  j->state = 1;
  ((kernel_fn)(uintptr_t)j->d.fn)((void*)(uintptr_t)j->d.A, (const void*)(uintptr_t)j->d.w,
                                  (const void*)(uintptr_t)j->d.c, (const void*)(uintptr_t)j->d.x,
                                  (const int*)(uintptr_t)j->d.ent, (const uint8_t*)(uintptr_t)j->d.perm,
                                  (void*)(uintptr_t)j->d.custom);
  j->state = 2;
}

static void entry(void) {
  tramp(cur);
  switch_ctx(&jobs[cur].fc, &sched_fc); /* never resumed */
  abort();
}

static void init_ctx(job_t* j) {
  uintptr_t top = (j->stack_hi) & ~(uintptr_t)15;
  uint64_t* sp = (uint64_t*)top;
  *--sp = 0;                           /* fake return address of entry(): rsp % 16 == 8 at entry */
  *--sp = (uint64_t)(uintptr_t)&entry; /* popped by ret */
  for (int i = 0; i < 6; i++) *--sp = 0; /* rbp rbx r12 r13 r14 r15 */
  --sp;
  uint32_t mx;
  uint16_t cw;
  __asm__ volatile("stmxcsr %0" : "=m"(mx));
  __asm__ volatile("fnstcw %0" : "=m"(cw));
  ((uint32_t*)sp)[0] = mx;
  ((uint32_t*)sp)[1] = cw;
  j->fc.rsp = sp;
}

/* ---------------------------------------------------------------- API */

int sim_init(uint64_t stack_size) {
  if (stack_size) g_stack_size = stack_size;
  for (int k = 0; k < MAXJOBS; k++) {
    if (jobs[k].stack) continue;
    size_t total = g_stack_size + 2 * 4096;
    char* m = mmap(0, total, PROT_READ | PROT_WRITE, MAP_PRIVATE | MAP_ANONYMOUS, -1, 0);
    if (m == MAP_FAILED) return -1;
    mprotect(m, 4096, PROT_NONE);
    mprotect(m + 4096 + g_stack_size, 4096, PROT_NONE);
    jobs[k].stack = m + 4096;
    jobs[k].stack_size = g_stack_size;
    jobs[k].stack_lo = (uintptr_t)jobs[k].stack;
    jobs[k].stack_hi = jobs[k].stack_lo + g_stack_size;
  }
  return 0;
}

void sim_set_module_regions(int n, const region_t* r) {
  nmodregions = n > MAXREG ? MAXREG : n;
  memcpy(modregions, r, sizeof(region_t) * nmodregions);
}

void sim_set_regions(int n, const region_t* r) {
  nregions = n > MAXREG ? MAXREG : n;
  memcpy(regions, r, sizeof(region_t) * nregions);
}

/* policy parameters: P_RANDOM: param = probability * 2^32; P_RR: param = quantum;
 * P_PCT: param = number of change points (<= 8), est_steps = estimated total accesses. */
int sim_run_batch(int n, const sim_job_desc* descs, int pol, uint64_t param, uint64_t est_steps,
                  uint64_t seed, uint64_t poison, uint64_t maxsteps, sim_result* out) {
  if (n > MAXJOBS) return -2;
  if (sim_init(0)) return -1;
  memset(out, 0, sizeof(*out));
  res = out;
  res->digest = 0xcbf29ce484222325ULL;
  njobs = n;
  policy = pol;
  rng_state = seed * 0x9E3779B97F4A7C15ULL + 0x1234567ULL;
  if (!rng_state) rng_state = 1;
  for (int i = 0; i < 8; i++) rnd();
  max_steps = maxsteps ? maxsteps : (uint64_t)-1;
  qcount = 0;
  quantum = param ? param : 1;
  threshold = pol == P_RANDOM ? (param << 32) : 0;
  pct_n = 0;
  if (pol == P_PCT) {
    pct_n = (int)(param > 8 ? 8 : param);
    for (int i = 0; i < pct_n; i++) pct_points[i] = 1 + rnd() % (est_steps ? est_steps : 1);
  }
  for (int k = 0; k < n; k++) {
    job_t* j = &jobs[k];
    j->d = descs[k];
    j->state = 0;
    j->accesses = 0;
    j->ran_since = 0;
    j->min_stack = j->stack_hi;
    j->prio = (int)(rnd() % 1000) + 10;
    /* stack residue: a different pattern per (poison, job) */
    uint64_t pat = (poison + 0x9E3779B97F4A7C15ULL * (uint64_t)(k + 1)) | 0x0101010101010101ULL;
    /* the top POISON_BYTES of the stack (it grows down from the top): where the kernel's frame,
     * its temporaries and libm's frames live */
    size_t pb = j->stack_size < POISON_BYTES ? j->stack_size : POISON_BYTES;
    uint64_t* s = (uint64_t*)(j->stack + j->stack_size - pb);
    for (size_t i = 0; i < pb / 8; i++) s[i] = pat;
    init_ctx(j);
  }
  int remaining = n, last = -1;
  struct sigaction sa, old_segv, old_bus, old_fpe, old_ill;
  stack_t ss, old_ss;
  if (!alt_stack) alt_stack = malloc(1 << 16);
  ss.ss_sp = alt_stack;
  ss.ss_size = 1 << 16;
  ss.ss_flags = 0;
  sigaltstack(&ss, &old_ss);
  memset(&sa, 0, sizeof sa);
  sa.sa_sigaction = on_fault;
  sa.sa_flags = SA_SIGINFO | SA_ONSTACK | SA_NODEFER;
  sigemptyset(&sa.sa_mask);
  sigaction(SIGSEGV, &sa, &old_segv);
  sigaction(SIGBUS, &sa, &old_bus);
  sigaction(SIGFPE, &sa, &old_fpe);
  sigaction(SIGILL, &sa, &old_ill);
  batch_active = 1;
  if (sigsetjmp(batch_jmp, 1)) {
    /* a kernel faulted: abandon the batch (the coroutine stacks are re-initialised next time) */
    remaining = 0;
    cur = -1;
  }
  while (remaining > 0) {
    int k = -1;
    if (pol == P_SEQ) {
      for (int i = 0; i < n; i++)
        if (jobs[i].state != 2) {
          k = i;
          break;
        }
    } else if (pol == P_RR) {
      for (int i = 1; i <= n; i++) {
        int c = (last + i + n) % n;
        if (jobs[c].state != 2) {
          k = c;
          break;
        }
      }
    } else if (pol == P_PCT) {
      int best = -100000;
      for (int i = 0; i < n; i++)
        if (jobs[i].state != 2 && jobs[i].prio > best) {
          best = jobs[i].prio;
          k = i;
        }
    } else {
      int cand[MAXJOBS], nc = 0;
      for (int i = 0; i < n; i++)
        if (jobs[i].state != 2) cand[nc++] = i;
      k = cand[rnd() % nc];
    }
    /* probes */
    int inside = 0;
    for (int i = 0; i < n; i++)
      if (jobs[i].state == 1) inside++;
    if (jobs[k].state == 0 && inside >= 1) res->probe_concurrent_inside++;
    if ((uint64_t)(inside + (jobs[k].state == 0)) > res->probe_max_inside)
      res->probe_max_inside = inside + (jobs[k].state == 0);
    if (jobs[k].state == 1 && __builtin_popcount(jobs[k].ran_since & ~(1u << k)) >= 2)
      res->probe_resumed_after_two++;
    jobs[k].ran_since = 0;
    for (int i = 0; i < n; i++)
      if (i != k) jobs[i].ran_since |= 1u << k;
    mix(0xABCD0000ULL + k);
    cur = k;
    last = k;
    switch_ctx(&sched_fc, &jobs[k].fc);
    cur = -1;
    if (jobs[k].state == 2) remaining--;
  }
  batch_active = 0;
  sigaction(SIGSEGV, &old_segv, 0);
  sigaction(SIGBUS, &old_bus, 0);
  sigaction(SIGFPE, &old_fpe, 0);
  sigaction(SIGILL, &old_ill, 0);
  sigaltstack(&old_ss, 0);
  for (int k = 0; k < n; k++) {
    res->per_job[k] = jobs[k].accesses;
    uint64_t used = jobs[k].stack_hi - jobs[k].min_stack;
    if (used > res->max_stack_used) res->max_stack_used = used;
  }
  res = 0;
  return 0;
}

/* symbol + offset of a code address inside the kernel module, for reports */
int sim_symbolize(uint64_t pc, char* buf, int len) {
  Dl_info info;
  if (dladdr((void*)(uintptr_t)pc, &info) && info.dli_sname) {
    snprintf(buf, len, "%s+0x%lx", info.dli_sname, (unsigned long)(pc - (uint64_t)(uintptr_t)info.dli_saddr));
    return 1;
  }
  if (dladdr((void*)(uintptr_t)pc, &info) && info.dli_fname) {
    snprintf(buf, len, "%s+0x%lx", info.dli_fname, (unsigned long)(pc - (uint64_t)(uintptr_t)info.dli_fbase));
    return 1;
  }
  snprintf(buf, len, "0x%lx", (unsigned long)pc);
  return 0;
}

uint64_t sim_sizeof_result(void) { return sizeof(sim_result); }
