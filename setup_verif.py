#!/venv/bin/python
"""MANIFEST.setup_cmd: build what the checks need from files on disk only (offline)."""
import os
import subprocess
import sys

HERE = os.path.dirname(os.path.abspath(__file__))
os.makedirs(os.path.join(HERE, "build"), exist_ok=True)
os.makedirs(os.path.join(HERE, "evidence"), exist_ok=True)
src = os.path.join(HERE, "sim", "kernsim", "simrt.c")
if os.path.exists(src):
    out = os.path.join(HERE, "build", "libsimrt.so")
    subprocess.check_call(["cc", "-O2", "-g", "-shared", "-fPIC", "-o", out, src, "-ldl"])
    print("built", out)
print("setup ok")
sys.exit(0)
