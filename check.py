#!/venv/bin/python
"""Entry point of every check.

  check.py <ID> [--tier quick|thorough] [--replay FILE]

Exit 0: property held on everything explored (KNOWN-FINDING lines possible).
Exit 1: `VIOLATION property=<id> replay=<path>` for a minimised, replayed violation.
Exit 2: `HARNESS-ERROR ...` the harness itself failed (never reported as a violation).
"""

from __future__ import annotations

import argparse
import os
import sys
import traceback

HERE = os.path.dirname(os.path.abspath(__file__))
if HERE not in sys.path:
    sys.path.insert(0, HERE)

from sim import core  # noqa: E402

ENGINE = {"C07": "kernsim", "C12": "histsim", "C13": "histsim", "C14": "jitsim", "C15": "jitsim"}


def main():
    ap = argparse.ArgumentParser()
    ap.add_argument("prop", choices=sorted(ENGINE) + ["selftest"])
    ap.add_argument("--tier", default=None, choices=["quick", "thorough"])
    ap.add_argument("--replay", default=None)
    ap.add_argument("--seed", type=int, default=None)
    ap.add_argument("rest", nargs="*")
    a = ap.parse_args()
    if a.tier:
        os.environ["VERIF_TIER"] = a.tier
    if a.seed is not None:
        os.environ["VERIF_SEED"] = str(a.seed)
    core.reexec_fixed_hashseed()
    core.use_repo()
    os.environ.setdefault("FFCX_VERIF", "1")
    tier, base = core.tier(), core.base_seed()
    print(f"check {a.prop} tier={tier} VERIF_SEED={base} repo={core.repo_root()}", flush=True)
    try:
        if a.prop == "selftest":
            from sim import selftest

            return selftest.main(a.rest)
        eng = ENGINE[a.prop]
        if eng == "histsim":
            from sim.histsim import driver
        elif eng == "jitsim":
            from sim.jitsim import driver
        else:
            from sim.kernsim import driver
        return driver.run_check(a.prop, tier, base, replay_path=a.replay)
    except core.HarnessError as e:
        print(f"HARNESS-ERROR property={a.prop} {e}")
        return core.EXIT_HARNESS
    except Exception:
        traceback.print_exc()
        print(f"HARNESS-ERROR property={a.prop} unexpected exception in the harness")
        return core.EXIT_HARNESS


if __name__ == "__main__":
    sys.exit(main())
