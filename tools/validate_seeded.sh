#!/bin/bash
# validate_seeded.sh <incoming-dir> <id>   e.g. /root/mutants-incoming/mut-C14a/1 C14a-1
# Confirms, in a scratch worktree of /repo outside /repo and /verif: the patch applies, the demo fails with
# the change and passes without it, and the pinned test suite still passes with the change.
set -u
src=$1; id=$2
wt=/tmp/v-$id
log=/root/work/validate-$id.log
mkdir -p /root/work
exec > $log 2>&1
git -C /repo worktree remove --force $wt 2>/dev/null
git -C /repo worktree add -q --detach $wt HEAD || { echo "RESULT $id worktree-failed"; exit 1; }
demo=$src/demo.py; runner="/venv/bin/python"
[ -f $src/demo.sh ] && { demo=$src/demo.sh; runner="bash"; }
echo "== demo WITHOUT change"; (cd /root/work && PYTHONPATH=$wt timeout 600 $runner $demo); without=$?
git -C $wt apply $src/patch.diff || { echo "RESULT $id patch-does-not-apply"; git -C /repo worktree remove --force $wt; exit 1; }
echo "== demo WITH change"; (cd /root/work && PYTHONPATH=$wt timeout 600 $runner $demo); with=$?
mkdir -p /tmp/v-$id-tmp; export TMPDIR=/tmp/v-$id-tmp
echo "== suite WITH change"
(cd $wt && PYTHONPATH=$wt timeout 3000 /venv/bin/python -m pytest -q -p no:cacheprovider --timeout=900 -n 5 test/ 2>&1 | tail -5) > $log.suite 2>&1
cat $log.suite
suite=$(grep -E "passed|failed" $log.suite | tail -1)
rm -rf /tmp/v-$id-tmp; unset TMPDIR
git -C $wt checkout -- . ; git -C /repo worktree remove --force $wt
echo "RESULT $id demo_without_exit=$without demo_with_exit=$with suite=[$suite]"
