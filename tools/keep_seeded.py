#!/venv/bin/python
"""keep_seeded.py <incoming-dir> <id> <property> <round> "<change>" "<needs>" "<detection note>"
Copies patch.diff / demo / notes.md of a confirmed seeded change into seeded/<id>/ and writes
meta.json from the validation and evaluation logs under /root/work."""
import glob
import json
import os
import re
import shutil
import subprocess
import sys

src, sid, prop, rnd, change, needs, note = sys.argv[1:8]
dst = os.path.join(os.path.dirname(os.path.dirname(os.path.abspath(__file__))), "seeded", sid)
os.makedirs(dst, exist_ok=True)
for f in ("patch.diff", "demo.py", "demo.sh", "notes.md"):
    if os.path.exists(os.path.join(src, f)):
        shutil.copy2(os.path.join(src, f), os.path.join(dst, f))
val = ""
vlog = f"/root/work/validate-{sid}.log"
if os.path.exists(vlog):
    val = [l.strip() for l in open(vlog) if l.startswith("RESULT")][-1:]
    val = val[0] if val else ""
evals = []
for line in open("/root/work/eval_all.results") if os.path.exists("/root/work/eval_all.results") else []:
    if line.startswith(f"EVAL {sid} "):
        evals.append(line.strip())
head = subprocess.run(["git", "-C", "/repo", "log", "--format=%h", "-1"], capture_output=True, text=True).stdout.strip()
meta = {
    "id": sid, "round": int(rnd), "property": prop, "change": change, "needs_to_manifest": needs,
    "confirmed_by_me": {
        "validation": val,
        "how": f"tools/validate_seeded.sh: scratch worktree of /repo HEAD {head} (at the time of keeping) under /tmp; patch applies; demo exits 0 "
               "without / 1 with the change; pinned pytest suite with the change: only the known "
               "test_cmdline_simple failure"},
    "checks_run": evals,
    "how_run": "tools/eval_seeded.sh: scratch worktree + patch, quick check through VERIF_REPO (the /repo tree itself "
               "is never patched)",
    "detection_note": note,
}
with open(os.path.join(dst, "meta.json"), "w") as f:
    json.dump(meta, f, indent=1)
print("kept", dst, val, evals)
