#!/bin/bash
# Every seeded patch must apply to the current /repo HEAD (scratch worktree under /tmp, removed afterwards).
wt=/tmp/applycheck-$$
git -C /repo worktree add -q --detach $wt HEAD || exit 2
rc=0
for d in /verif/seeded/*/; do
  git -C $wt apply --check $d/patch.diff 2>/dev/null || { echo "DOES NOT APPLY: $(basename $d)"; rc=1; }
done
git -C /repo worktree remove --force $wt
[ $rc = 0 ] && echo "all $(ls -d /verif/seeded/*/ | wc -l) seeded patches apply to $(git -C /repo log --format=%h -1)"
exit $rc
