#!/bin/bash
# eval_seeded.sh <dir-with-patch.diff> <id> <prop> [extra env...]   run a quick check against a seeded change
# (scratch worktree outside /repo and /verif, used through VERIF_REPO; removed afterwards)
set -u
src=$1; id=$2; prop=$3; shift 3
wt=/tmp/e-$id-$prop
git -C /repo worktree remove --force $wt 2>/dev/null
git -C /repo worktree add -q --detach $wt HEAD || exit 2
git -C $wt apply $src/patch.diff || { git -C /repo worktree remove --force $wt; exit 2; }
mkdir -p /root/work
cd /verif
env VERIF_REPO=$wt VERIF_NO_EVIDENCE=1 "$@" /venv/bin/python check.py $prop --tier quick > /root/work/eval-$id-$prop.log 2>&1
rc=$?
git -C /repo worktree remove --force $wt
echo "EVAL $id $prop rc=$rc $(grep -c '^VIOLATION' /root/work/eval-$id-$prop.log) violations: $(grep 'invariant=' /root/work/eval-$id-$prop.log | sed 's/.*invariant=\([^ ]*\).*/\1/' | tr '\n' ' ')"
